"""C01 - forward log-abs-det == log|det Jacobian| of the map actually computed.

Monitor: per-item reverse-mode Jacobian of the REAL forward pass (f64 world) -> slogdet, compared with
the returned logabsdet, for every zoo family x configuration x parameter policy x structured inputs;
composite = sum of parts (hand chained); spline *functions* driven directly with non-default boxes;
thorough tier adds an autograd-independent finite-difference cross-check."""
import numpy as np
import torch

from vf import env, zoo
from vf.result import R
from vf.monitors import jacobian as jm
from vf import splineref

RULE = ("case = (transform family, constructor configuration, parameter policy, seed); per case a batch of in-domain "
        "inputs with structured points (knots' neighbourhoods, end-points, tail bounds, cut points); one evaluation = one "
        "batch item whose returned logabsdet was compared with slogdet of its autograd Jacobian; a cell "
        "(family, policy, 2-D/image, context?, has-structured-point?, tails?) is non-trivial when the reference "
        "log-det is finite and the item Jacobian is not the identity matrix")
ASSUMPTIONS = ["torch autograd differentiates torch's own ops correctly (removed for elementwise splines by the FD "
               "cross-check on the thorough tier)", "float64 default dtype world; tolerance 1e-7*(1+|ref|)"]
REQUIRED_COUNTS = ["jacobian_items", "spline_fn_points", "composite_sum_checks"]
TOL = 1e-7

UMNN_POLICIES = ["fresh", "randn0.3", "randn1"]


def gen_cases(tier, seed):
    nrand = 5 if tier == "quick" else 100
    pols = ["fresh", "randn1", "zero", "extreme"] if tier == "quick" else zoo.POLICIES
    cases = []
    for fam in zoo.ALL_FAMS:
        cfgs = zoo.configs([fam], tier, seed, nrand)
        for ci, cfg in enumerate(cfgs):
            for pi, pol in enumerate(pols):
                if tier == "quick" and (ci + pi) % 2 == 1 and ci >= 2:
                    continue
                if "umnn" in fam and pol not in UMNN_POLICIES:
                    continue
                cases.append({"kind": "zoo", "cfg": cfg, "policy": pol, "seed": env.subseed(seed, fam, ci, pol),
                              "world": "f64", "batch": 5 if tier == "quick" else 8,
                              "cost": 6 if "umnn" in fam else (3 if len(cfg.get("shape", [1])) == 3 else 1)})
                base_case = cases[-1]
                if cfg.get("cache") and pol != "zero":
                    # cache on: the forward log-det must not depend on which direction filled the cache first
                    cases.append(dict(base_case, pre="inverse_first"))
                if pol == "randn1" and (ci < 2 or tier == "thorough") and "umnn" not in fam:
                    # the same OBJECT evaluated after its values were replaced (it was built and called with other values, then
                    # received these through load_state_dict): "for every parameter value" includes values that arrive later
                    cases.append(dict(base_case, pre="revalued"))
    # finding probe (known open finding): UMNN coupling with an unconditional transform
    for i, shape in enumerate(([2], [3])):
        cfg = {"fam": "coupling_umnn", "ctx": 0, "net": "resnet", "hidden": 8, "blocks": 1, "shape": shape,
               "mask": [1.0, 0.0, 1.0][:shape[0]], "cond": 4, "steps": 20, "solver": "CCParallel", "uncond": True}
        cases.append({"kind": "zoo", "cfg": cfg, "policy": "fresh", "seed": env.subseed(seed, "umnn-uncond", i),
                      "world": "f64", "batch": 3, "cost": 2, "probe": "umnn_uncond"})
    # direct spline functions with boxes
    boxes = splineref.BOXES
    nb = 4 if tier == "quick" else 48
    for fam in ("linear", "quadratic", "cubic", "rq"):
        for bi, bx in enumerate(boxes):
            for rep in range(nb):
                cases.append({"kind": "spline_fn", "family": fam, "box": bx, "bins": [1, 2, 3, 5, 8, 10][(bi + rep) % 6],
                              "pscale": [0.0, 0.5, 1.0, 3.0][(rep + bi) % 4], "seed": env.subseed(seed, fam, bi, rep),
                              "world": "f64", "fd": tier == "thorough", "cost": 1})
        for rep in range(nb):
            for B in (0.5, 1.0, 3.0, 30.0):
                cases.append({"kind": "spline_fn", "family": fam, "box": None, "B": B, "bins": [1, 2, 3, 5, 8][rep % 5],
                              "pscale": [0.0, 0.5, 1.0, 3.0][rep % 4], "seed": env.subseed(seed, fam, "tails", B, rep),
                              "world": "f64", "fd": tier == "thorough", "cost": 1})
    return cases


def _cell(r, cfg, me, pol, special):
    r.cell(cfg["fam"], pol, "img" if len(me["shape"]) == 3 else "2d", "ctx" if me["ctx_shape"] else "noctx",
           "sp" if special else "int", cfg.get("tails", "-"), "uncond" if cfg.get("uncond") else "-",
           "cache" if cfg.get("cache") else "-")


def run_case(case):
    if case["kind"] == "spline_fn":
        return run_spline_fn(case)
    r = R(case)
    cfg, pol = case["cfg"], case["policy"]
    me = zoo.meta(cfg)
    fam = cfg["fam"]
    try:
        model = zoo.make(cfg, pol, case["seed"])
    except Exception as e:
        r.ev()
        r.viol("construct", "%s constructor raises" % fam, exc=repr(e)[:300], cfg=cfg)
        return r.done()
    B = case["batch"]
    if case.get("pre") == "revalued":
        try:
            other = zoo.revalued(cfg, model, me, case["seed"], B)
            model = other
            r.count("revalued_objects")
        except Exception as e:
            r.inconc("revalued pre-history: harness failure %r" % (e,))
            return r.done()
    x = zoo.sample_inputs(me, B, case["seed"] + 1, structured="one")
    ctx = zoo.sample_context(me, B, case["seed"] + 2)
    sp = set(me["special"])
    if case.get("pre") == "inverse_first":
        try:
            with torch.no_grad():
                model.inverse(torch.randn_like(x), ctx)
        except Exception:
            pass
    try:
        with torch.no_grad():
            out, lad = model(x, ctx)
    except Exception as e:
        r.ev()
        r.viol("forward_raises", "%s forward raises on in-domain input" % fam, exc=repr(e)[:300],
               exc_type=type(e).__name__, uncond=bool(cfg.get("uncond")), cfg=cfg)
        _cell(r, cfg, me, pol, True)
        return r.done()
    if tuple(lad.shape) != (B,):
        r.ev()
        r.viol("shape", "%s logabsdet shape != (batch,)" % fam, got=list(lad.shape), batch=B,
               features=me["shape"], cfg=cfg)
        return r.done()
    if not torch.isfinite(lad).all() or not torch.isfinite(out).all():
        r.ev()
        r.viol("nonfinite", "%s forward returns non-finite numbers" % fam, policy=pol, cfg=cfg)
        return r.done()
    worst = 0.0
    # LeakyReLU at exactly 0: autograd takes the negative-side slope, the library the non-negative side; both are
    # legitimate one-sided derivatives.  Detect by a forward pre-hook and do not judge such items.
    from nflows.transforms.nonlinearities import LeakyReLU
    kink_hit = {"v": False}

    def _pre(mod, args):
        if (args[0] == 0).any():
            kink_hit["v"] = True
    hooks = [m.register_forward_pre_hook(_pre) for m in model.modules() if isinstance(m, LeakyReLU)]
    for i in range(B):
        ci = ctx[i] if ctx is not None else None
        r.ev()
        r.count("jacobian_items")
        kink_hit["v"] = False
        fwd = lambda z, c: model(z, c)  # noqa: E731
        J, oi, li = jm.item_jacobian(fwd, x[i], ci)
        ref = jm.ref_logabsdet(J)
        lib = float(lad[i])
        fallback = False
        if ref is None or not torch.isfinite(ref):
            # autograd artefact candidates: clamp / branch switch exactly on a domain edge.  Compare at a point
            # a hair inside instead (library value and reference taken at the SAME nudged point), and require
            # the library's value at the edge to be continuous with it.
            xn = zoo.nudge_edges(x[i], me)
            if not torch.equal(xn, x[i]):
                J, oi, li = jm.item_jacobian(fwd, xn, ci)
                ref = jm.ref_logabsdet(J)
                fallback = True
                r.count("edge_fallbacks")
                # continuity is judged at the smallest nudge that is still clear of the edge (1e-13): steep but continuous
                # maps (derivative growing from 4e-4 to 300 within 1e-4 of the edge was observed under the `extreme`
                # policy) legitimately move their log-det by O(1) over the 1e-9 used for the Jacobian comparison
                with torch.no_grad():
                    xs = zoo.nudge_edges(x[i], me, rel=1e-13)
                    ls = float(model(xs[None], ci[None] if ci is not None else None)[1][0])
                if abs(ls - lib) > 1e-2 * (1 + abs(lib)) and min(lib, ls) > -12.0:
                    r.viol("edge_discontinuity", "%s logabsdet jumps at a domain edge" % fam, item=i, at_edge=lib,
                           inside=ls, cfg=cfg, policy=pol)
                lib = float(li)
        if ref is None or not torch.isfinite(ref):
            if lib < -12.0:
                r.count("skipped_saturated_items")   # derivative below 1e-9: output saturated in float64
                continue
            if "sigmoid_eps" in me["tags"]:
                # declared approximation: Sigmoid.inverse clamps its argument to [eps, 1-eps]; an intermediate value
                # inside that band has zero autograd derivative while the library reports the unclamped formula
                r.count("skipped_declared_sigmoid_clamp")
                continue
            if any(float(v) in sp for v in x[i].reshape(-1)):
                # an element sits exactly on a structured point (clamp / branch boundary of some part of a
                # composite): autograd's sub-gradient there is an artefact and nudging the composite's input
                # need not move the inner value off the boundary.  Not decidable by this oracle.
                r.count("skipped_autograd_artefact_items")
                continue
            r.viol("singular", "%s autograd Jacobian singular but returned logabsdet is moderate" % fam, item=i,
                   policy=pol, cfg=cfg, returned=lib, x=x[i].reshape(-1)[:8])
            continue
        if kink_hit["v"]:
            r.count("skipped_leakyrelu_at_zero")
            continue
        cond = float(torch.linalg.cond(J))
        if not cond < 1e8:
            r.count("skipped_illconditioned_items")   # not decidable to 1e-7 in float64
            continue
        err = abs(lib - float(ref))
        allowed = TOL * (1 + abs(float(ref))) * max(1.0, cond * 1e-4)
        if "umnn" in me["tags"]:
            allowed = max(allowed, 1e-6 * (1 + abs(float(ref))))
        worst = max(worst, err / allowed)
        n = J.shape[0]
        nontrivial = not torch.allclose(J, torch.eye(n), atol=1e-12)
        has_sp = any(float(v) in sp for v in x[i].reshape(-1))
        if nontrivial:
            _cell(r, cfg, me, pol, has_sp)
        if err > allowed:
            r.viol("logdet_mismatch", "%s logabsdet != log|det J|" % fam, item=i, returned=lib,
                   reference=float(ref), err=err, policy=pol, cfg=cfg, features=me["shape"],
                   x=x[i].reshape(-1)[:8], uncond=bool(cfg.get("uncond")), edge_fallback=fallback)
    for h in hooks:
        h.remove()
    r.worst("logdet_err/tol", worst)
    # composite: logabsdet is the sum over the parts (hand chained)
    if fam == "composite":
        with torch.no_grad():
            h, tot = x, torch.zeros(B)
            for part in model._transforms:
                h, l = part(h, ctx)
                tot = tot + l
            r.ev()
            r.count("composite_sum_checks")
            d = float((tot - lad).abs().max())
            r.worst("composite_sum_err/tol", d / 1e-9)
            if d > 1e-9 * (1 + float(lad.abs().max())):
                r.viol("composite_sum", "composite logabsdet != sum of parts", err=d, cfg=cfg)
    # the SAME object on another event shape (legal for the elementwise maps and for broadcastable affine maps): a value
    # memoised on the first call must not leak into the second
    agnostic = fam in ("exp", "tanh", "logtanh", "leakyrelu", "sigmoid", "cauchycdf", "identity") or \
        (fam == "pointwise_affine" and (cfg.get("kind") == "scalar" or len(cfg["shape"]) == 1))
    if agnostic:
        try:
            m2 = dict(me)
            if fam == "pointwise_affine" and cfg.get("kind") != "scalar":
                m2["shape"] = [2] + list(me["shape"])
            else:
                m2["shape"] = [2, 3] if len(me["shape"]) == 1 else [4]
            x2 = zoo.sample_inputs(m2, 3, case["seed"] + 7, structured=False)
            with torch.no_grad():
                out2, lad2 = model(x2, None)
            for i in range(x2.shape[0]):
                J2, _, _ = jm.item_jacobian(lambda z, c: model(z, c), x2[i], None)
                ref2 = jm.ref_logabsdet(J2)
                if ref2 is None or not torch.isfinite(ref2):
                    continue
                r.ev()
                r.count("second_shape_items")
                e2 = abs(float(lad2[i]) - float(ref2))
                if e2 > 1e-7 * (1 + abs(float(ref2))) * 10:
                    r.viol("logdet_mismatch", "%s logabsdet != log|det J| on a second call with another event shape" % fam, item=i,
                           returned=float(lad2[i]), reference=float(ref2), first_shape=me["shape"], second_shape=m2["shape"], cfg=cfg)
                    break
        except Exception as e:
            r.count("second_shape_raised")
    r.sample({"family": fam, "policy": pol, "x0": x[0].reshape(-1)[:6], "logabsdet0": float(lad[0]),
              "worst_err_over_tol": worst})
    return r.done()


# ----------------------------------------------------------------------------- direct spline functions
def run_spline_fn(case):
    r = R(case)
    fam = case["family"]
    g = torch.Generator().manual_seed(case["seed"])
    K = case["bins"]
    n = 64
    bx = case["box"]
    params = splineref.random_params(fam, n, K, case["pscale"], g, tails=bx is None)
    if bx is None:
        B = case["B"]
        fn = splineref.fn(fam, unconstrained=True)
        kw = {"tail_bound": B, "tails": "linear"}
        knots = splineref.knots(fam, params, -B, B, -B, B, tails=True)["x"]
        x = splineref.place_inputs(knots, -B, B, g, tails_B=B)
    else:
        left, right, bottom, top = bx
        fn = splineref.fn(fam, unconstrained=False)
        kw = {"left": left, "right": right, "bottom": bottom, "top": top}
        knots = splineref.knots(fam, params, left, right, bottom, top, tails=False)["x"]
        x = splineref.place_inputs(knots, left, right, g)
    # x: [n, P] -> evaluate each column (params rows shared)
    worst = 0.0
    for j in range(x.shape[1]):
        xj = x[:, j].clone()
        lo_e, hi_e = (-case["B"], case["B"]) if bx is None else (bx[0], bx[1])
        try:
            out, lad, grad = jm.elementwise_derivative(lambda z: fn(inputs=z, inverse=False, **params, **kw), xj)
        except Exception as e:
            r.ev()
            r.viol("forward_raises", "spline %s forward raises on in-domain input" % fam, exc=repr(e)[:200],
                   box=bx, bins=K)
            break
        r.ev(n)
        r.count("spline_fn_points", n)
        art = ~(grad > 0)
        if art.any():
            # clamp artefact on an edge: compare at a point a hair inside (same point for both sides)
            eps_ = 8 * 2.3e-16 * max(abs(lo_e), abs(hi_e), 1.0)
            near_lo, near_hi = (xj - lo_e).abs() <= eps_, (xj - hi_e).abs() <= eps_
            xn = torch.where(art & near_lo, xj + 1e-9 * (hi_e - lo_e), torch.where(art & near_hi, xj - 1e-9 * (hi_e - lo_e), xj))
            out2, lad2, grad2 = jm.elementwise_derivative(lambda z: fn(inputs=z, inverse=False, **params, **kw), xn)
            r.count("edge_fallbacks", int(art.sum()))
            xs = torch.where(art & near_lo, xj + 1e-13 * (hi_e - lo_e), torch.where(art & near_hi, xj - 1e-13 * (hi_e - lo_e), xj))
            with torch.no_grad():
                lad_s = fn(inputs=xs, inverse=False, **params, **kw)[1]
            jump = art & ((lad_s - lad).abs() > 1e-2 * (1 + lad.abs())) & (torch.minimum(lad, lad_s) > -12.0)
            if jump.any():
                k = int(jump.nonzero()[0])
                r.viol("edge_discontinuity", "spline %s logabsdet jumps at a domain edge" % fam, x=float(xj[k]),
                       at_edge=float(lad[k]), inside=float(lad_s[k]), box=bx, bins=K)
            lad = torch.where(art, lad2, lad)
            grad = torch.where(art, grad2, grad)
        ok = torch.isfinite(lad) & torch.isfinite(grad) & (grad > 0)
        sat = ~ok & (lad < -12)
        r.count("skipped_saturated_items", int(sat.sum()))
        if (~ok & ~sat).any():
            k = int((~ok & ~sat).nonzero()[0])
            r.viol("nonfinite", "spline %s non-finite / non-positive derivative" % fam, x=float(xj[k]), lad=float(lad[k]),
                   grad=float(grad[k]), box=bx, bins=K, pscale=case["pscale"])
        lad, grad, xj2 = lad[ok], grad[ok], xj[ok]
        if lad.numel() == 0:
            continue
        err = (lad - torch.log(grad)).abs()
        allowed = TOL * (1 + torch.log(grad).abs()) * torch.clamp(1e-4 / grad, min=1.0)
        worst = max(worst, float((err / allowed).max()))
        if (err > allowed).any():
            k = int((err / allowed).argmax())
            square = bx is None or abs((bx[3] - bx[2]) - (bx[1] - bx[0])) < 1e-12
            r.viol("logdet_mismatch", "spline %s logabsdet != log d out/d in" % fam, x=float(xj2[k]),
                   returned=float(lad[k]), reference=float(torch.log(grad[k])), err=float(err[k]),
                   box=bx, square_box=square, bins=K, pscale=case["pscale"],
                   missing_log_box_ratio=(None if bx is None else float(np.log((bx[3] - bx[2]) / (bx[1] - bx[0])))))
        if case.get("fd") and j % 3 == 0 and bool(ok.all()):
            _fd_crosscheck(r, fam, fn, params, kw, xj, lad, knots, bx, case)
        r.cell("spline_fn", fam, "tails" if bx is None else ("square" if abs((bx[3] - bx[2]) - (bx[1] - bx[0])) < 1e-12 else "nonsquare"),
               K, case["pscale"], splineref.POINT_CLASSES[j % len(splineref.POINT_CLASSES)] if j < len(splineref.POINT_CLASSES) else "grid")
    r.worst("spline_fn_err/tol", worst)
    r.sample({"family": fam, "box": bx, "B": case.get("B"), "bins": K, "pscale": case["pscale"],
              "points_per_row": int(x.shape[1]), "worst_err_over_tol": worst})
    return r.done()


def _fd_crosscheck(r, fam, fn, params, kw, xj, lad, knots, bx, case):
    """Autograd-independent: central differences at points >= 1e-4*range from any knot / boundary."""
    lo = -case["B"] if bx is None else bx[0]
    hi = case["B"] if bx is None else bx[1]
    rng_ = hi - lo
    h = 1e-6 * rng_
    d = (xj[:, None] - knots).abs().min(dim=1).values
    far = (d > 1e-4 * rng_) & (xj > lo + 1e-4 * rng_) & (xj < hi - 1e-4 * rng_)
    if not far.any():
        return
    with torch.no_grad():
        yp, _ = fn(inputs=(xj + h).clamp(lo, hi) if bx is not None else xj + h, inverse=False, **params, **kw)
        ym, _ = fn(inputs=(xj - h).clamp(lo, hi) if bx is not None else xj - h, inverse=False, **params, **kw)
    fd = (yp - ym) / (2 * h)
    ok = far & (fd > 0)
    err = (torch.log(fd.clamp_min(1e-300)) - lad).abs()
    r.ev(int(ok.sum()))
    r.count("fd_points", int(ok.sum()))
    # truncation 1e-4 plus rounding noise of the difference quotient relative to the slope
    tol = 1e-4 + 1e-14 * torch.maximum(yp.abs(), ym.abs()).clamp_min(1.0) / (h * fd.clamp_min(1e-300))
    bad = ok & (err > tol)
    r.worst("fd_err/tol", float((err / tol)[ok].max()) if ok.any() else 0.0)
    if bad.any():
        k = int(bad.nonzero()[0])
        r.viol("fd_mismatch", "spline %s logabsdet != log finite-difference slope" % fam, x=float(xj[k]),
               returned=float(lad[k]), fd=float(torch.log(fd[k])), box=bx, bins=case["bins"])
