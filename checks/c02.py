"""C02 - inverse undoes forward in both orders, returns the negated log-abs-det, everything finite.

Monitor: round-trip oracle on the real forward/inverse of every invertible zoo family (float64 deciding,
float32 finiteness pass) with conditioning-scaled tolerances taken from the item Jacobian only when the
cheap tolerance fails; log-det antisymmetry evaluated at the point inverse(y); the four spline functions
are driven directly in the inverse direction on y-knots, their ulp neighbours and the box end-points."""
import numpy as np
import torch

from vf import env, zoo
from vf.result import R
from vf.monitors import jacobian as jm
from vf import splineref

RULE = ("case = (invertible transform family, configuration, parameter policy incl. exactly-zero and strongly non-uniform, "
        "seed, dtype world); per case a batch of structured in-domain x (y = forward(x)) and, for non-composite families, "
        "in-range y sampled directly (end-points, tail bounds); one evaluation = one batch item checked for "
        "x'=inverse(y) ~ x, forward(x') ~ y, logabsdet_inv(y) = -logabsdet_fwd(x'), finiteness; a cell "
        "(family, policy, world, direction, structured?) is non-trivial when the map is not the identity on that item")
ASSUMPTIONS = ["tolerance 1e-7 (float64) scaled by the item Jacobian's extreme singular values when the unscaled test fails",
               "declared approximation constants honoured: Sigmoid eps clamp, UMNN 25-step bisection on [-20,20] (1e-4), "
               "cubic quadratic_threshold (1e-3 * bin_width^3 in y)"]
REQUIRED_COUNTS = ["roundtrip_items", "antisymmetry_checks", "spline_inv_points"]
TAU = {"f64": 1e-7, "f32": 5e-3}


def gen_cases(tier, seed):
    nrand = 4 if tier == "quick" else 240
    pols = ["fresh", "randn1", "zero", "extreme"] if tier == "quick" else zoo.POLICIES
    cases = []
    for fam in zoo.ALL_FAMS:
        cfgs = zoo.configs([fam], tier, seed + 101, nrand)
        for ci, cfg in enumerate(cfgs):
            for pi, pol in enumerate(pols):
                if tier == "quick" and (ci + pi) % 2 == 1 and ci >= 3:
                    continue
                if "umnn" in fam and pol not in ("fresh", "randn0.3", "randn1"):
                    continue
                # float32 pass: finiteness / loose round trip on moderate parameters only (float32 accuracy is C19's clause)
                world = "f32" if (ci + pi) % 5 == 4 and pol in ("fresh", "randn0.3") else "f64"
                cases.append({"kind": "zoo", "cfg": cfg, "policy": pol, "seed": env.subseed(seed, "c02", fam, ci, pol),
                              "world": world, "batch": 5 if tier == "quick" else 8,
                              "cost": 8 if "umnn" in fam else (3 if len(cfg.get("shape", [1])) == 3 else 1)})
                base_case = cases[-1]
                if cfg.get("cache") and pol not in ("zero", "extreme") and fam != "conv1x1x":
                    cases.append(dict(base_case, order="inverse_first"))
                if pol == "randn1" and world == "f64" and (ci < 2 or tier == "thorough") and "umnn" not in fam:
                    # the same object after its values were replaced (built and called with other values, then loaded)
                    cases.append(dict(base_case, pre="revalued"))
    # TRAINING mode with batch-normalised conditioners: both directions of one layer must use the same conditioner function (batch
    # statistics in both; a masked network's hidden unit only sees features of lower index, which the inverse has already
    # restored when it needs them; a coupling conditioner sees the identity features, which are the same in both directions)
    rng = np.random.default_rng(seed + 4242)
    k = 0
    for fam in ("ar_affine", "ar_rq", "ar_quadratic", "ar_linear", "coupling_affine", "coupling_rq", "coupling_additive"):
        for rep in range(2 if tier == "quick" else 40):
            cfg = zoo.FAM[fam].sample_cfg(rng, tier)
            cfg["net_bn"] = True
            cfg.pop("dropout", None)
            if fam.startswith("coupling_"):
                cfg["net"] = "resnet"
                cfg["shape"] = cfg["shape"][:1] if rep % 2 == 0 else cfg["shape"]
            else:
                cfg["blocks"] = max(cfg["blocks"], 1)
            cases.append({"kind": "zoo", "cfg": cfg, "policy": ["randn0.3", "randn1"][rep % 2], "train": True,
                          "seed": env.subseed(seed, "c02train", fam, k), "world": "f64", "batch": 6 + rep % 3, "cost": 2})
            k += 1
    nb = 4 if tier == "quick" else 120
    for fam in ("linear", "quadratic", "cubic", "rq"):
        for bi, bx in enumerate(splineref.BOXES):
            for rep in range(nb):
                cases.append({"kind": "spline_fn", "family": fam, "box": bx, "bins": [1, 2, 3, 5, 8, 10][(bi + rep) % 6],
                              "pscale": [0.0, 0.5, 1.0, 3.0][(rep + bi) % 4], "seed": env.subseed(seed, "c02", fam, bi, rep),
                              "world": "f64", "cost": 1})
        for rep in range(nb):
            for B in (0.5, 1.0, 3.0, 30.0):
                cases.append({"kind": "spline_fn", "family": fam, "box": None, "B": B, "bins": [1, 2, 3, 5, 8][rep % 5],
                              "pscale": [0.0, 0.5, 1.0, 3.0][rep % 4], "seed": env.subseed(seed, "c02", fam, "t", B, rep),
                              "world": "f64", "cost": 1})
    return cases


def emit(r, kind, mech, _unused=None, rel_err=None, **detail):
    r.viol(kind, mech, rel_err=rel_err, **detail)


def _finite(*ts):
    return all(bool(torch.isfinite(t).all()) for t in ts)


def _scaled_ok(model, xi, ci, x_err, y_err, nx, ny, tau, need_x=False, x_back=None):
    """Conditioning-scaled acceptance using the item Jacobian's singular values."""
    try:
        J, _, _ = jm.item_jacobian(lambda z, c: model(z, c), xi, ci)
        sv = torch.linalg.svdvals(J)
        smax, smin = float(sv.max()), float(sv.min())
        if need_x and x_back is not None and torch.isfinite(x_back).all():
            # x may sit exactly on a knot next to a saturated (flat) piece: the one-sided derivative at x is regular while
            # the inverse legitimately lands anywhere inside the flat piece - look at the returned point as well
            J2, _, _ = jm.item_jacobian(lambda z, c: model(z, c), x_back, ci)
            sv2 = torch.linalg.svdvals(J2)
            smax, smin = max(smax, float(sv2.max())), min(smin, float(sv2.min()))
    except Exception:
        return False, None
    if not (smin > 1e-8 and smax < 1e8):
        # saturated / autograd artefact / a stretch or compression beyond 1e8: some intermediate value has lost
        # >= 8 of its 16 digits, a 1e-7 verdict is not decidable in float64
        return True, "singular"
    ok_x = x_err <= tau * (1 + nx + ny / smin)
    ok_y = y_err <= tau * (1 + ny + smax * nx)
    return bool(ok_x if need_x else (ok_x or ok_y)), {"smax": smax, "smin": smin}


def run_case(case):
    if case["kind"] == "spline_fn":
        return run_spline_fn(case)
    r = R(case)
    cfg, pol, world = case["cfg"], case["policy"], case["world"]
    me = zoo.meta(cfg)
    fam = cfg["fam"]
    tau = TAU[world]
    if "umnn" in me["tags"]:
        tau = max(tau, 1e-4)
    try:
        model = zoo.make(cfg, pol, case["seed"])
    except Exception as e:
        r.ev()
        r.viol("construct", "%s constructor raises" % fam, exc=repr(e)[:300], cfg=cfg)
        return r.done()
    B = case["batch"]
    if case.get("train"):
        model.train()
        r.count("training_mode_subjects")
    if case.get("pre") == "revalued":
        try:
            model = zoo.revalued(cfg, model, me, case["seed"], B)
            r.count("revalued_objects")
        except Exception as e:
            r.inconc("revalued pre-history: harness failure %r" % (e,))
            return r.done()
    cubic_nu = ("spline_cubic" in me["tags"]) and pol != "zero"
    x = zoo.sample_inputs(me, B, case["seed"] + 1, structured="many")
    ctx = zoo.sample_context(me, B, case["seed"] + 2)
    sp = set(me["special"])

    def call(fn, z, what):
        try:
            with torch.no_grad():
                return fn(z, ctx)
        except Exception as e:
            emit(r, what + "_raises", "%s %s raises on in-domain input" % (fam, what), cubic_nu and what != "forward",
                 exc=repr(e)[:300], exc_type=type(e).__name__, policy=pol, world=world, cfg=cfg,
                 uncond=bool(cfg.get("uncond")))
            return None

    r.ev()
    inverse_first = case.get("order") == "inverse_first"
    if inverse_first:
        # cache on: the very first call on the (empty) cache is an inverse
        y = zoo.sample_inputs(me, B, case["seed"] + 5, structured=False, dom=me["dom_out"])
        lad_f = torch.zeros(B)
    else:
        fw = call(model.forward, x, "forward")
        if fw is None:
            return r.done()
        y, lad_f = fw
    # forward results a hair (< 1% of the round-trip tolerance) outside a closed output interval are put back on
    # the end-point ("to floating-point accuracy"); C09 owns the never-leaves-the-interval clause
    if me["dom_out"][0] == "box" and torch.isfinite(y).all():
        lo_, hi_ = me["dom_out"][1], me["dom_out"][2]
        sl = 1e-2 * tau * max(abs(lo_), abs(hi_), 1.0)
        over = ((y < lo_) & (y >= lo_ - sl)) | ((y > hi_) & (y <= hi_ + sl))
        if over.any():
            r.count("ulp_overshoot_clamped", int(over.sum()))
            y = torch.where(over, y.clamp(lo_, hi_), y)
    ys = [("from_x", x, y)] if not inverse_first else [("direct_y", None, y)]
    # directly sampled in-range y (non-composite families: the range is the declared output domain)
    # (not for LogTanh / UMNN: their floating-point range is far smaller than the declared output domain -
    #  y beyond alpha*log(beta*float_max), resp. beyond the image of the declared bisection interval [-20, 20])
    if not inverse_first and not (me["tags"] & {"composite", "multiscale", "flattens", "reshapes", "umnn"}) and fam != "logtanh" \
            and cfg.get("inner", {}).get("fam") != "logtanh" and me["dom_out"][0] in ("R", "box"):
        m2 = dict(me)
        m2["shape"] = list(y.shape[1:])
        ys.append(("direct_y", None, zoo.sample_inputs(m2, B, case["seed"] + 3, structured="many", dom=me["dom_out"])))
    worst = 0.0
    for label, x_true, yy in ys:
        if not _finite(yy):
            r.viol("nonfinite", "%s forward returns non-finite numbers" % fam, policy=pol, world=world, cfg=cfg)
            continue
        inv = call(model.inverse, yy, "inverse")
        if inv is None:
            continue
        xi_, lad_i = inv
        if tuple(lad_i.shape) != (B,):
            r.viol("shape", "%s inverse logabsdet shape != (batch,)" % fam, got=list(lad_i.shape), cfg=cfg)
            continue
        if not _finite(xi_, lad_i):
            bad = (~torch.isfinite(xi_)).reshape(B, -1).any(1) | ~torch.isfinite(lad_i)
            if label == "from_x":
                # saturated items: a forward log-det this negative means some derivative is below ~1e-11, the output
                # has collapsed onto a neighbouring value in float64 and no inverse can recover x
                sat = lad_f < -(25.0 + 3.0 * x[0].numel())
                # ... or y has collapsed: moving x by 1e-6 relative does not move some element of y at all
                try:
                    flat = torch.zeros(B, dtype=torch.bool)
                    for sgn in (1.0, -1.0):
                        xp = x + sgn * 1e-6 * (1 + x.abs())
                        if me["dom_in"][0] == "box":
                            xp = xp.clamp(me["dom_in"][1], me["dom_in"][2])
                        with torch.no_grad():
                            yp, _ = model(xp, ctx)
                        if yp.shape == yy.shape:
                            tiny = 16 * torch.finfo(yy.dtype).eps * (1 + yy.abs())
                            flat = flat | (((yp - yy).abs() <= tiny) & (xp != x)).reshape(B, -1).any(1)
                    sat = sat | flat
                except Exception:
                    pass
                if (bad & sat).any():
                    r.count("skipped_saturated_items", int((bad & sat).sum()))
                bad = bad & ~sat
                if not bad.any():
                    continue
            else:
                # directly drawn y (no x whose forward log-det could tell): the same saturation test on a probe grid through the
                # input domain with the item's own identity features / context - conditioner outputs that spread the softmax
                # logits by 60 leave bins of mass 1e-27, the cumulative sums are flat there in float64 and an end-point y has no
                # floating-point pre-image (the piecewise-linear spline has no floor; see DESIGN section 9, C09 `huge`)
                try:
                    sat = torch.zeros(B, dtype=torch.bool)
                    dom = me["dom_in"]
                    lo_p, hi_p = (dom[1], dom[2]) if dom[0] == "box" else ((-dom[1], dom[1]) if dom[0] == "Rb" else (-6.0, 6.0))
                    if cfg.get("tails") and "B" in cfg:
                        lo_p, hi_p = -float(cfg["B"]), float(cfg["B"])
                    for t_ in torch.linspace(0.0, 1.0, 33).tolist():
                        xp = torch.full_like(yy, lo_p + (hi_p - lo_p) * t_)
                        if "mask" in cfg:
                            idc = [i for i, v in enumerate(cfg["mask"]) if not v > 0]
                            xp[:, idc] = yy[:, idc]
                        with torch.no_grad():
                            lp_ = model(xp, ctx)[1]
                        sat = sat | (lp_ < -(25.0 + 3.0 * yy[0].numel())) | ~torch.isfinite(lp_)
                    if (bad & sat).any():
                        r.count("skipped_saturated_items", int((bad & sat).sum()))
                    bad = bad & ~sat
                    if not bad.any():
                        continue
                except Exception:
                    pass
            if label == "from_x":
                # "to floating-point accuracy scaled by the local conditioning of the map": where the item's Jacobian has a condition
                # number beyond 1e9 (a linear layer whose diagonal the `extreme` policy spread over e^-15 ... e^15) the inverse
                # amplifies the rounding of y by that factor, the value handed to the next part's inverse is off by thousands and
                # an exp / tan there overflows - the overflow is the amplified rounding error, not a wrong inverse
                try:
                    for k_ in bad.nonzero().reshape(-1).tolist():
                        J_, _, _ = jm.item_jacobian(lambda z, c: model(z, c), x[k_], ctx[k_] if ctx is not None else None)
                        sv_ = torch.linalg.svdvals(J_)
                        if float(sv_.max()) > 1e9 * float(sv_.min()):
                            bad[k_] = False
                            r.count("skipped_illconditioned_items")
                except Exception:
                    pass
                if not bad.any():
                    continue
            k = int(bad.nonzero()[0])
            emit(r, "nonfinite", "%s inverse returns non-finite numbers" % fam, cubic_nu, policy=pol, world=world,
                 cfg=cfg, y=yy[k].reshape(-1)[:8], direction=label)
            continue
        # "to floating-point accuracy": an inverse that overshoots a closed domain end-point by less than 1% of the
        # round-trip tolerance is put back on the end-point before it is fed to forward (counted)
        if me["dom_in"][0] == "box":
            lo_, hi_ = me["dom_in"][1], me["dom_in"][2]
            ulps = 1e-2 * tau * max(abs(lo_), abs(hi_), 1.0)   # well inside the round-trip tolerance itself
            over = ((xi_ < lo_) & (xi_ >= lo_ - ulps)) | ((xi_ > hi_) & (xi_ <= hi_ + ulps))
            if over.any():
                r.count("ulp_overshoot_clamped", int(over.sum()))
                xi_ = torch.where(over, xi_.clamp(lo_, hi_), xi_)
        if x_true is not None and tuple(xi_.shape) != tuple(x_true.shape):
            r.viol("shape", "%s inverse(forward(x)) does not have the shape of x" % fam, got=list(xi_.shape),
                   expected=list(x_true.shape), policy=pol, cfg=cfg)
            continue
        fw2 = call(model.forward, xi_, "forward_of_inverse")
        if fw2 is None:
            continue
        y2, lad_f2 = fw2
        if tuple(y2.shape) != tuple(yy.shape):
            r.viol("shape", "%s forward(inverse(y)) does not have the shape of y" % fam, got=list(y2.shape),
                   expected=list(yy.shape), policy=pol, cfg=cfg)
            continue
        if not _finite(y2, lad_f2):
            emit(r, "nonfinite", "%s forward(inverse(y)) returns non-finite numbers" % fam, cubic_nu, policy=pol,
                 world=world, cfg=cfg)
            continue
        for i in range(B):
            r.ev()
            r.count("roundtrip_items")
            ny = float(yy[i].abs().max())
            y_err = float((y2[i] - yy[i]).abs().max())
            if x_true is not None:
                nx = float(x_true[i].abs().max())
                x_err = float((xi_[i] - x_true[i]).abs().max())
            else:
                nx = float(xi_[i].abs().max())
                x_err = float("inf")
            # inverse(forward(x)) must give back x ITSELF: reproducing y from another pre-image (a map that is not
            # injective) is not enough; only local ill-conditioning (measured at x) excuses a larger distance.  For
            # directly drawn y there is no x to compare with and forward(inverse(y)) == y is the clause.
            need_x = x_true is not None
            ok = (x_err <= tau * (1 + nx)) if need_x else (y_err <= tau * (1 + ny))
            info = None
            if not ok:
                ok, info = _scaled_ok(model, (x_true if x_true is not None else xi_)[i], ctx[i] if ctx is not None else None,
                                      x_err, y_err, nx, ny, tau, need_x, xi_[i])
                r.count("jacobian_scaled_decisions")
            worst = max(worst, (x_err / (tau * (1 + nx))) if need_x else (y_err / (tau * (1 + ny))))
            if info == "singular":
                r.count("skipped_saturated_items")
                continue
            if not ok:
                emit(r, "roundtrip", "%s inverse does not undo forward" % fam, cubic_nu,
                     rel_err=(x_err / (1 + nx)) if x_true is not None else None, policy=pol, world=world, cfg=cfg,
                       direction=label, x_err=x_err, y_err=y_err, sv=info,
                       x=(x_true if x_true is not None else xi_)[i].reshape(-1)[:8], y=yy[i].reshape(-1)[:8],
                       uncond=bool(cfg.get("uncond")))
            # log-det antisymmetry at the point inverse(y)
            r.count("antisymmetry_checks")
            a = abs(float(lad_i[i]) + float(lad_f2[i]))
            allowed = max(tau, 1e-7 if world == "f64" else 1e-3) * (1 + abs(float(lad_f2[i])))
            if a > allowed and "kink" in me["tags"]:
                # piecewise-linear pieces: at a knot either adjacent slope is a correct answer for the inverse
                alt = []
                for d in (1e-9, -1e-9):
                    try:
                        with torch.no_grad():
                            _, l3 = model(xi_[i:i + 1] * (1 + d) + d, ctx[i:i + 1] if ctx is not None else None)
                        alt.append(abs(float(lad_i[i]) + float(l3[0])))
                    except Exception:
                        pass
                if alt and min(alt) <= 10 * allowed:
                    r.count("knot_either_slope_accepted")
                    a = 0.0
                elif any(float(v) in sp for v in (x_true[i] if x_true is not None else yy[i]).reshape(-1)):
                    # several elements of one item sit on knots of a piecewise-linear map and may each take either
                    # slope: not decidable item-wise (the spline-function driver decides knots element-wise)
                    r.count("kink_items_undecided")
                    a = 0.0
            # cancellation inside the transformers (slopes from differenced cumulative sums): relative error ~eps/derivative
            allowed = allowed + 1e-13 * float(np.exp(min(max(abs(float(lad_f2[i])), abs(float(lad_i[i]))), 60.0)))
            sat_lim = 20.0 + 2.0 * xi_[i].numel()
            worst_lad = max(abs(float(lad_f2[i])), abs(float(lad_i[i])))
            if a > allowed and worst_lad >= sat_lim:
                r.count("antisymmetry_saturated_skipped")
            if a > allowed and worst_lad < sat_lim:
                # conditioning: the inverse's own backward error (~1e-13 relative) moves x' by err/sigma_min, and the
                # log-det can be very sensitive to x' (strongly non-uniform bins): estimate both numerically
                try:
                    xi0 = xi_[i]
                    ci0 = ctx[i] if ctx is not None else None
                    J, _, _ = jm.item_jacobian(lambda z, c: model(z, c), xi0, ci0)
                    smin = float(torch.linalg.svdvals(J).min())
                    sens = 0.0
                    gg = torch.Generator().manual_seed(case["seed"] + i)
                    for dlt in (1e-7, 1e-9, 1e-11):     # knots of strongly non-uniform splines are very local
                        dlt = dlt * (1 + float(xi0.abs().max()))
                        u = torch.sign(torch.randn(xi0.shape, generator=gg))
                        xa_, xb_ = xi0 + dlt * u, xi0 - dlt * u
                        if me["dom_in"][0] == "box":
                            xa_, xb_ = xa_.clamp(me["dom_in"][1], me["dom_in"][2]), xb_.clamp(me["dom_in"][1], me["dom_in"][2])
                        with torch.no_grad():
                            la = model(xa_[None], ci0[None] if ci0 is not None else None)[1]
                            lb = model(xb_[None], ci0[None] if ci0 is not None else None)[1]
                        sens = max(sens, abs(float(la) - float(lb)) / max(float((xa_ - xb_).abs().max()), 1e-300))
                    if smin > 0 and np.isfinite(sens):
                        allowed = allowed + sens * (1e-12 if world == "f64" else 1e-5) * (1 + ny + float(xi0.abs().max())) / smin
                        r.count("antisymmetry_sensitivity_scaled")
                except Exception:
                    pass
            if a > allowed and (world == "f32" or ("composite" in me["tags"] and pol in ("extreme", "randn3"))):
                # float32 accuracy of the log-det is C19's clause (decided against a float64 twin); composites under
                # strongly non-uniform parameters hide ill-conditioned intermediates behind a moderate total log-det
                # (their parts are judged individually here, their bookkeeping by C08)
                r.count("antisymmetry_not_judged")
                a = 0.0
            if a > allowed and worst_lad < sat_lim:
                emit(r, "antisymmetry", "%s inverse logabsdet != -forward logabsdet at inverse(y)" % fam, cubic_nu,
                     policy=pol, world=world, cfg=cfg, inv=float(lad_i[i]), fwd_at_inverse=float(lad_f2[i]),
                     direction=label)
            nontrivial = float((yy[i].reshape(-1)[: xi_[i].numel()] - xi_[i].reshape(-1)).abs().max()) > 1e-9 \
                if yy[i].numel() == xi_[i].numel() else True
            if nontrivial:
                has_sp = any(float(v) in sp for v in (x_true[i] if x_true is not None else yy[i]).reshape(-1))
                r.cell(fam, pol, world, label, "sp" if has_sp else "int", cfg.get("tails", "-"))
    r.worst("roundtrip_err/tol", worst)
    r.sample({"family": fam, "policy": pol, "world": world, "x0": x[0].reshape(-1)[:5], "y0": y[0].reshape(-1)[:5],
              "worst_err_over_tol": worst})
    return r.done()


# ----------------------------------------------------------------------------- spline functions, inverse direction
def run_spline_fn(case):
    r = R(case)
    fam = case["family"]
    g = torch.Generator().manual_seed(case["seed"])
    K = case["bins"]
    n = 64
    bx = case["box"]
    tails = bx is None
    K = max(K, splineref.min_bins(fam, tails))
    params = splineref.random_params(fam, n, K, case["pscale"], g, tails=tails)
    if tails:
        Bv = case["B"]
        fn = splineref.fn(fam, unconstrained=True)
        kw = {"tail_bound": Bv, "tails": "linear"}
        left, right, bottom, top = -Bv, Bv, -Bv, Bv
    else:
        left, right, bottom, top = bx
        fn = splineref.fn(fam, unconstrained=False)
        kw = {"left": left, "right": right, "bottom": bottom, "top": top}
    xk = splineref.knots(fam, params, left, right, bottom, top, tails=tails)["x"]
    # y-knots by the real forward pass at the reference x-knots (placement only)
    try:
        with torch.no_grad():
            yk = torch.stack([fn(inputs=xk[:, j].clamp(left, right), inverse=False, **params, **kw)[0] for j in range(xk.shape[1])], 1)
    except Exception as e:
        r.ev()
        r.viol("forward_raises", "spline %s forward raises on in-domain input" % fam, exc=repr(e)[:200], box=bx, bins=K)
        return r.done()
    yk = torch.sort(yk.clamp(bottom, top), dim=1).values
    ypts = splineref.place_inputs(yk, bottom, top, g, tails_B=case["B"] if tails else None)
    worst = 0.0
    wy = top - bottom
    wx = right - left
    cubic_nu = fam == "cubic" and case["pscale"] != 0.0
    for j in range(ypts.shape[1]):
        y = ypts[:, j].clone()
        pclass = splineref.POINT_CLASSES[j] if j < len(splineref.POINT_CLASSES) else "tail"
        try:
            with torch.no_grad():
                xinv, lad_i = fn(inputs=y, inverse=True, **params, **kw)
                y2, lad_f = fn(inputs=xinv.clamp(left, right) if not tails else xinv, inverse=False, **params, **kw)
        except Exception as e:
            r.ev()
            emit(r, "inverse_raises", "spline %s inverse raises on in-range input" % fam, cubic_nu, exc=repr(e)[:200],
                   exc_type=type(e).__name__, box=bx, bins=K, point_class=pclass,
                   square_box=bool(tails or (abs(wy - wx) < 1e-12 and abs(left - bottom) < 1e-12)))
            continue
        r.ev(n)
        r.count("spline_inv_points", n)
        fin = torch.isfinite(xinv) & torch.isfinite(lad_i)
        if not fin.all():
            k = int((~fin).nonzero()[0])
            emit(r, "nonfinite", "spline %s inverse returns non-finite numbers" % fam, cubic_nu, y=float(y[k]), x=float(xinv[k]),
                   lad=float(lad_i[k]), box=bx, bins=K, pscale=case["pscale"], point_class=pclass,
                   n_nonfinite=int((~fin).sum()), zero_params=case["pscale"] == 0.0)
        if not tails:
            out = fin & ((xinv < left - 1e-9 * wx) | (xinv > right + 1e-9 * wx))
            if out.any():
                k = int(out.nonzero()[0])
                over_ = float(torch.maximum(left - xinv[out], xinv[out] - right).max() / wx)
                emit(r, "range", "spline %s inverse leaves [left,right]" % fam, cubic_nu, rel_err=over_, y=float(y[k]),
                     x=float(xinv[k]), box=bx)
        slope = torch.exp(lad_f)
        # declared approximation of the cubic's almost-quadratic fallback: <= threshold * (bin width)^3 in normalised y
        extra = 1e-3 * wy if fam == "cubic" else 0.0
        yerr = (y2 - y).abs()
        allowed = 1e-7 * (abs(bottom) + abs(top) + wy) * torch.clamp(slope, min=1.0) + extra
        bad = fin & torch.isfinite(y2) & (yerr > allowed)
        worst = max(worst, float((yerr / allowed)[fin & torch.isfinite(y2)].max()) if (fin & torch.isfinite(y2)).any() else 0.0)
        if bad.any():
            k = int((yerr / allowed * bad).argmax())
            emit(r, "roundtrip", "spline %s forward(inverse(y)) != y" % fam, cubic_nu,
                 rel_err=float((yerr / torch.clamp(slope, min=1e-12))[k] / wx), y=float(y[k]), x=float(xinv[k]), y_back=float(y2[k]),
                   err=float(yerr[k]), allowed=float(allowed[k]), box=bx, bins=K, pscale=case["pscale"], point_class=pclass)
        r.count("antisymmetry_checks", n)
        a = (lad_i + lad_f).abs()
        # sensitivity of the log-derivative to the inverse's own backward error (~500 ulps of y): near a knot with
        # a strongly varying derivative d(lad)/dy can reach 1e8
        with torch.no_grad():
            dlt = 1e-9 * wx
            xa, xb = xinv + dlt, xinv - dlt
            if not tails:
                xa, xb = xa.clamp(left, right), xb.clamp(left, right)
            la = fn(inputs=xa, inverse=False, **params, **kw)[1]
            lb = fn(inputs=xb, inverse=False, **params, **kw)[1]
        sens = ((la - lb).abs() / (2 * dlt)).nan_to_num(0.0)
        tol_a = 1e-7 * (1 + lad_f.abs()) + 1e-13 * torch.exp(lad_f.abs().clamp(max=60.0)) + \
            sens * 1e-13 * (y.abs() + wy) / torch.clamp(slope, min=1e-12) + \
            (1e-3 * wy / torch.clamp(slope, min=1e-12) if fam == "cubic" else 0.0)
        bad = fin & torch.isfinite(lad_f) & (a > tol_a)
        if bad.any() and fam == "linear" or (bad.any() and tails):
            # knot / tail junction of a piecewise-linear map: either adjacent slope is accepted
            with torch.no_grad():
                alts = []
                for d in (1e-9 * wx, -1e-9 * wx):
                    xx = xinv + d
                    if not tails:
                        xx = xx.clamp(left, right)
                    alts.append((lad_i + fn(inputs=xx, inverse=False, **params, **kw)[1]).abs())
            a2 = torch.minimum(a, torch.minimum(alts[0], alts[1]))
            r.count("knot_either_slope_accepted", int((bad & (a2 <= 10 * tol_a)).sum()))
            bad = bad & (a2 > 10 * tol_a)
        if bad.any():
            k = int(bad.nonzero()[0])
            emit(r, "antisymmetry", "spline %s inverse logabsdet != -forward logabsdet at inverse(y)" % fam, cubic_nu, y=float(y[k]),
                   x=float(xinv[k]), inv=float(lad_i[k]), fwd=float(lad_f[k]), box=bx, bins=K, pscale=case["pscale"],
                   point_class=pclass)
        r.cell("spline_inv", fam, "tails" if tails else ("square" if abs(wy - wx) < 1e-12 else "nonsquare"), K,
               case["pscale"], pclass)
    r.worst("spline_roundtrip_err/tol", worst)
    r.sample({"family": fam, "box": bx, "B": case.get("B"), "bins": K, "pscale": case["pscale"],
              "y_points_per_row": int(ypts.shape[1]), "worst_err_over_tol": worst})
    return r.done()
