"""C03 - a flow's log_prob is a normalised probability density.

Monitor: quadrature of exp(log_prob) of the REAL flow over its typed data domain, for random typed programs
(data domain -> ... -> R) of library transforms in data dimension 1 and 2, several base distributions,
parameter policies and context rows.  The integral is taken at n and 2n nodes; |I_2n - I_n| is the error
estimate; a case whose estimate is too large to decide is counted as inconclusive-for-that-case, never as held."""
import numpy as np
import torch

from vf import env, zoo, dzoo
from vf.result import R
from vf.monitors import quadrature as q

RULE = ("program = data domain {R, (0,1) via Logit, (0,1) via inverse Cauchy CDF, (0,inf) via log, (-1,1) via atanh} followed by 1-3 "
        "library transforms (affine, linear family, splines with tails, composite CDF, masked autoregressive, couplings [2-D], "
        "normalisation layers, nonlinearities) x base {StandardNormal, DiagonalNormal, ConditionalDiagonalNormal, MADEMoG} x context "
        "rows; one evaluation = one (flow, context row) integral; a cell (dimension, data domain, base, transform families) is "
        "non-trivial when the integral was decided (error estimate below the threshold) and the flow is not a plain standard normal")
ASSUMPTIONS = ["midpoint rule on a compactified grid, n and 2n nodes; verdict |I-1| <= 1e-4 + 4*est (1-D), 2e-3 + 4*est (2-D)",
               "cases with est > 1e-3 (1-D) / 1e-2 (2-D) are undecided and only counted"]
REQUIRED_COUNTS = ["integrals_decided", "integrals_1d", "integrals_2d"]
BUDGET = {"case_timeout": {"quick": 600, "thorough": 3600}}


def gen_cases(tier, seed):
    rng = np.random.default_rng(seed + 81)
    cases = []
    n1 = 70 if tier == "quick" else 1200
    n2 = 26 if tier == "quick" else 300
    for i in range(n1):
        cases.append({"cfg": dzoo.sample_program_flow(rng, 1), "seed": env.subseed(seed, "c03", 1, i), "world": "f64",
                      "n": 100000 if tier == "quick" else 400000, "cost": 2})
    for i in range(n2):
        cases.append({"cfg": dzoo.sample_program_flow(rng, 2), "seed": env.subseed(seed, "c03", 2, i), "world": "f64",
                      "n": 260 if tier == "quick" else 700, "cost": 6})
    # every 1-D body family once per run with its non-default arguments (LogTanh cut points other than 1, squashing pairs with
    # temperatures, ...): a family that is drawn by chance only is missed on some seeds
    k = 0
    for fam in dzoo.BODY_1D:
        for rep in range(2):
            if fam in ("composite_cdf", "squash_pair"):
                c = zoo.FAM[fam].sample_cfg(rng, "quick")
                c["shape"] = [1]
            else:
                c = zoo.sample_R_cfg(rng, "quick", 1, 0, fams=[fam])
            if fam == "logtanh":
                c["cut"] = [0.5, 2.0][rep]
            cfg = {"flow": "program", "D": 1, "ctx": 0, "data": "R", "parts": [c], "base": ["standard", "diag"][rep], "embed": False,
                   "embed_same_width": False, "narrow": False, "policy": ["randn0.3", "randn1"][rep]}
            cases.append({"cfg": cfg, "seed": env.subseed(seed, "c03must", k), "world": "f64",
                          "n": 100000 if tier == "quick" else 400000, "cost": 2})
            k += 1
    # finding probe (open finding F-UMNN-NORM): a 1-D flow made of one UMNN autoregressive transform and a standard normal.  The
    # forward map of a UMNN transform is a 20-30 node quadrature of its integrand network, the log-det is the integrand itself
    for i in range(6 if tier == "quick" else 40):
        c = zoo.sample_R_cfg(rng, "quick", 1, 0, fams=["ar_umnn"])
        cfg = {"flow": "program", "D": 1, "ctx": 0, "data": "R", "parts": [c], "base": "standard", "embed": False,
               "embed_same_width": False, "narrow": False, "policy": ["randn0.3", "randn1", "fresh"][i % 3]}
        cases.append({"cfg": cfg, "seed": env.subseed(seed, "c03umnn", i), "world": "f64", "n": 100000, "cost": 6, "probe": "umnn_norm"})
    # ... and the witness of the finding itself, independent of VERIF_SEED (integral 0.978)
    wit = {"fam": "ar_umnn", "shape": [1], "hidden": 9, "ctx": 0, "blocks": 0, "residual": False, "random_mask": False, "cond": 3,
           "steps": 20, "solver": "CC"}
    cases.append({"cfg": {"flow": "program", "D": 1, "ctx": 0, "data": "R", "parts": [wit], "base": "standard", "embed": False,
                          "embed_same_width": False, "narrow": False, "policy": "randn1"},
                  "seed": 102, "world": "f64", "n": 100000, "cost": 6, "probe": "umnn_norm"})
    # packaged flows at 2 features
    for i in range(4 if tier == "quick" else 30):
        cfg = {"flow": "maf" if i % 2 == 0 else "realnvp", "D": 2, "hidden": 8, "layers": 1 + i % 2, "blocks": 1,
               "residual": bool(i % 3), "random_perm": bool(i % 2), "bn_between": bool(i % 4 == 1), "ctx": 0,
               "volume_preserving": bool(i % 4 == 3), "data": "R"}
        cases.append({"cfg": cfg, "seed": env.subseed(seed, "c03p", i), "world": "f64", "n": 260 if tier == "quick" else 700,
                      "cost": 6})
    return cases


def make_flow(cfg, seed):
    from nflows.transforms.normalization import ActNorm
    if cfg["flow"] == "program":
        f = dzoo.build_program_flow(cfg, seed)
        if any(isinstance(m, ActNorm) and not bool(m.initialized) for m in f.modules()):
            f.train()
            x, c = dzoo.program_data_sample(cfg, 32, seed + 3)
            with torch.no_grad():
                try:
                    f.log_prob(x, c)
                except Exception:
                    pass
    else:
        f = dzoo.build_flow(cfg, seed, policy="randn0.3")
    f.eval()
    return f


def _umnn_explained(flow, dom, n):
    """Reference model of the open finding F-UMNN-NORM.  True iff (1) the flow's log_prob is EXACTLY standard-normal(z) + logabsdet
    with (z, logabsdet) the transform's own outputs (so no term is dropped or double-counted anywhere), and (2) the missing /
    excess mass is accounted for by the two ways in which z fails to be the antiderivative of exp(logabsdet): my own fine
    cumulative quadrature Z of exp(logabsdet), anchored at x = 0, departs from z by more than 1e-3 where the density is not
    negligible, or its image [Z(-inf), Z(+inf)] does not carry the whole standard normal.  Anything else is a new violation."""
    import math
    xs, w = q.grid_1d(dom, n)
    with torch.no_grad():
        z, lad = flow._transform(xs[:, None], None)
        lp = flow.log_prob(xs[:, None])
    z = z.reshape(-1)
    ref = -0.5 * z ** 2 - 0.5 * math.log(2 * math.pi) + lad
    fin = torch.isfinite(lp) & torch.isfinite(ref)
    if not bool(fin.any()) or float((lp - ref)[fin].abs().max()) > 1e-9:
        return False
    g = torch.exp(lad)
    gw = torch.where(torch.isfinite(g * w), g * w, torch.zeros_like(w))
    cs = torch.cumsum(gw, 0) - 0.5 * gw
    i0 = int(torch.argmin(xs.abs()))
    Z = z[i0] + (cs - cs[i0])
    # ... near the origin, where 20-30 quadrature nodes do resolve the integrand (observed <= 3e-3 on 36 sampled transforms), the
    # reported log-derivative must BE the derivative of z: a wrong log-det (C01's business) is not this finding
    near = xs.abs() <= 2.0
    if float((z - Z)[near].abs().max()) > 2e-2:
        return False
    dens = torch.exp(lp) * w
    weight = dens / dens.sum().clamp_min(1e-300)
    departs = float(((z - Z).abs() * (weight > 1e-9)).max()) > 1e-3
    zlo, zhi = float(Z.min()), float(Z.max())
    image_mass = 0.5 * (math.erf(zhi / math.sqrt(2)) - math.erf(zlo / math.sqrt(2)))
    return bool(departs or image_mass < 1 - 1e-5)


def run_case(case):
    r = R(case)
    cfg, seed = case["cfg"], case["seed"]
    try:
        flow = make_flow(cfg, seed)
    except Exception as e:
        r.inconc("construction failed %r" % (e,))
        return r.done()
    D = cfg["D"]
    dom = dzoo.DATA_DOM[cfg.get("data", "R")]
    nctx = cfg.get("ctx", 0)
    g = torch.Generator().manual_seed(seed)
    rows = 1 if not nctx else 2
    fams = sorted({c["fam"] for c in cfg.get("parts", [])}) or [cfg["flow"]]
    for row in range(rows):
        ctx_row = torch.randn(1, (dzoo.embed_width(cfg) if cfg.get("embed") else nctx), generator=g) if nctx else None

        def logp(x):
            with torch.no_grad():
                c = ctx_row.expand(x.shape[0], -1) if ctx_row is not None else None
                return flow.log_prob(x, c)
        r.ev()
        try:
            if D == 1:
                # the data domains (0,1) and (-1,1) resolve only |logit| <= 36.7 / |atanh| <= 18.7 in float64: if the noise
                # interval reachable from representable data does not carry (almost) all of the base's mass, the integral
                # over representable data is legitimately < 1 and the case is undecidable by quadrature in data space
                xs, _ = q.grid_1d(dom, case["n"])
                ends = torch.stack([xs[0], xs[-1]])[:, None]
                with torch.no_grad():
                    c2 = ctx_row.expand(2, -1) if ctx_row is not None else None
                    zz = flow.transform_to_noise(ends, c2).reshape(-1)
                zlo, zhi = float(zz.min()), float(zz.max())
                base = flow._distribution
                emb = flow._embedding_net(ctx_row) if ctx_row is not None else None

                def logb(z):
                    with torch.no_grad():
                        if not flow._context_used_in_base:      # a base whose methods take no context argument
                            return base.log_prob(z)
                        return base.log_prob(z, emb.expand(z.shape[0], -1) if emb is not None else None)
                zg, zw = q.grid_1d(("R",), 20000)
                pb = torch.exp(logb(zg[:, None]).double())
                outside = float((pb * zw)[(zg < zlo) | (zg > zhi)].sum())
                if outside > 1e-7 and case.get("probe") != "umnn_norm":
                    r.count("integrals_undecided")
                    r.count("unreachable_base_mass")
                    continue
                I1, I2, est, _ = q.integrate_1d(logp, dom, case["n"])
                r.count("integrals_1d")
                tol, lim = 1e-4, 1e-3
            else:
                # where is the mass?  The tensor grid resolves its central part only (the outermost 1 % of its rows / columns are
                # the truncation band).  A flow whose data-space law is spread over tens of decades (LogTanh with a large cut
                # point: x = exp(y / 0.013)) puts almost none of its mass there, and the thin density it has there looks
                # converged at every resolution.  The flow's own sampler is used for PLACEMENT only: if more than 0.1 % of its
                # draws fall outside the resolved range the case is undecidable on this grid.
                xs, _ = q.grid_1d(dom, case["n"])
                k0 = max(2, len(xs) // 100)
                lo_r, hi_r = float(xs[k0]), float(xs[-k0 - 1])
                try:
                    torch.manual_seed(seed + 17)
                    with torch.no_grad():
                        smp = flow.sample(4000, ctx_row)[0] if ctx_row is not None else flow.sample(4000)
                    smp = smp.reshape(-1, D)
                    out_frac = float(((smp < lo_r) | (smp > hi_r) | ~torch.isfinite(smp)).any(-1).double().mean())
                except Exception:
                    out_frac = 0.0
                    r.count("placement_sampling_raised")
                if out_frac > 1e-3:
                    r.count("integrals_undecided")
                    r.count("mass_outside_resolved_grid")
                    continue
                I1, I2, est = q.integrate_2d(logp, dom, dom, case["n"])
                r.count("integrals_2d")
                tol, lim = 5e-3, 1e-2
        except Exception as e:
            r.viol("log_prob_raises", "flow.log_prob raises on in-domain data", exc=repr(e)[:250], exc_type=type(e).__name__,
                   cfg=cfg, families=fams)
            break
        if not np.isfinite(I2) or est > lim:
            r.count("integrals_undecided")
            continue
        r.count("integrals_decided")
        err = abs(I2 - 1.0)
        r.worst("integral_err/allowed", err / (tol + 4 * est))
        if err > tol + 4 * est and case.get("probe") == "umnn_norm" and _umnn_explained(flow, dom, case["n"]):
            r.count("umnn_probe_not_normalised")
            r.viol("not_normalised", "UMNN flow is not normalised: log_prob is base(z) + log z' exactly, but the forward map z (a coarse "
                   "quadrature of the integrand network) is not the antiderivative of the log-derivative it reports / has a bounded image",
                   integral=I2, estimate=est, probe="umnn_norm", families=fams, cfg=cfg)
        elif err > tol + 4 * est:
            r.viol("not_normalised", "exp(log_prob) of a flow does not integrate to one", integral=I2, coarse=I1,
                   estimate=est, dim=D, data_domain=cfg.get("data", "R"), base=cfg.get("base"), families=fams, cfg=cfg,
                   context_row=(ctx_row.tolist() if ctx_row is not None else None))
        else:
            r.cell(D, cfg.get("data", "R"), cfg.get("base", "standard"), "+".join(fams), "ctx" if nctx else "noctx")
    r.sample({"dim": D, "data_domain": cfg.get("data", "R"), "base": cfg.get("base"), "families": fams,
              "policy": cfg.get("policy")})
    return r.done()
