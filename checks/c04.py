"""C04 - samples and densities of a flow agree, row by row.

Monitors
 1. pairing (deterministic): s, lp = sample_and_log_prob(n, ctx); every (context row i, draw j) is re-evaluated
    ONE ROW AT A TIME with log_prob(s[i,j], ctx[i]) and must give lp[i,j]; without context per draw;
 2. hooked noise: the flow's base distribution instance is wrapped (instance-level, no repo edit) so that the
    noise handed from the base to the transform is recorded; sample(n, ctx)[i, j] must equal
    transform.inverse(noise[i,j], embed(ctx[i])) computed row by row, and transform_to_noise(sample[i,j], ctx[i])
    must give noise[i,j] back - with context rows chosen far apart this decides 'block i is drawn under row i'
    exactly, without statistics;
 3. distributional: for 1-D flows the empirical CDF of 2e5 (2e6) samples is compared (Kolmogorov-Smirnov,
    alpha = 1e-9) with the CDF obtained by cumulative quadrature of exp(log_prob); the recorded noise is tested
    against the base's own density the same way;
 4. block law: for conditional distributions and flows over conditional bases, block i of sample(n, ctx) is compared
    with the single-row call sample(n, ctx[i:i+1]) (which cannot mix rows up) through the statistic
    log p(x|c_i) - log p(x|c_j): two-sample z-test (8 sigma) + two-sample KS (alpha = 1e-9) + Gibbs' inequality."""
import numpy as np
import torch

from vf import env, zoo, dzoo
from vf.result import R
from vf.monitors import quadrature as q

RULE = ("flow = typed program (as in C03) or packaged flow, x context (none, 1-4 rows, with / without embedding net) x num_samples "
        "{1,2,7}; evaluations = row-wise comparisons (pairing, noise replay) + KS tests; a cell (dimension, base, context kind, "
        "monitor) is non-trivial when the compared samples differ between context rows / draws (the flow is not degenerate)")
ASSUMPTIONS = ["pairing / replay tolerance 1e-6*(1+|value|) in float64 (the two paths differ by an inverse-forward round trip), items "
               "whose log-prob magnitude exceeds 50 are ill-conditioned and skipped", "KS at alpha = 1e-9 on 2e5 draws: D_crit = 0.0073"]
REQUIRED_COUNTS = ["pairing_rows", "noise_replay_rows", "ks_tests", "block_pair_tests", "block_sets_with_distinguishable_rows"]
BUDGET = {"case_timeout": {"quick": 600, "thorough": 3600}}
TOL = 1e-6


def gen_cases(tier, seed):
    rng = np.random.default_rng(seed + 91)
    cases = []
    for i in range(60 if tier == "quick" else 2500):
        D = 1 if i % 3 else 2
        cases.append({"kind": "rows", "cfg": dzoo.sample_program_flow(rng, D), "seed": env.subseed(seed, "c04r", i),
                      "world": "f64", "cost": 2})
    for i in range(10 if tier == "quick" else 300):
        cfg = dzoo.sample_flow_cfg(rng, D=int(rng.integers(2, 4)), ctx=0)
        if cfg["flow"] == "generic":
            cfg = {"flow": "maf", "D": 3, "hidden": 8, "layers": 2, "blocks": 1, "residual": True, "random_perm": bool(i % 2),
                   "bn_between": bool(i % 3 == 0), "ctx": 0}
        cases.append({"kind": "rows", "cfg": cfg, "seed": env.subseed(seed, "c04p", i), "world": "f64", "cost": 2})
    for i in range(16 if tier == "quick" else 300):
        cases.append({"kind": "ks", "cfg": dzoo.sample_program_flow(rng, 1), "seed": env.subseed(seed, "c04k", i), "world": "f64",
                      "nsamp": 200000 if tier == "quick" else 2000000, "cost": 8})
    # every base distribution at least once under the distributional monitor (narrow mixture components included)
    k = 0
    for base in ("mademog", "mademog", "cond_diag", "plain", "standard"):
        for ctx in ((0, 2) if base not in ("cond_diag",) else (2,)):
            cfg = {"flow": "program", "D": 1, "ctx": ctx, "data": "R", "base": base, "embed": False, "embed_same_width": False,
                   "narrow": k % 2 == 0, "policy": "randn0.3",
                   "parts": [{"fam": "pointwise_affine", "shape": [1], "kind": "full", "pseed": 3 + k, "deprecated": False}]}
            cases.append({"kind": "ks", "cfg": cfg, "seed": env.subseed(seed, "c04km", k), "world": "f64",
                          "nsamp": 200000 if tier == "quick" else 2000000, "cost": 8})
            k += 1
    # block routing of conditional subjects (raw conditional distributions and flows over a conditional base)
    nb = 24 if tier == "quick" else 600
    for i in range(nb):
        if i % 2 == 0:
            dc = dzoo.sample_dist_cfg(rng, [["cond_diag", "mademog", "bernoulli"][(i // 2) % 3]])
            if dc["dist"] == "mademog":
                dc["ctx"] = 2
                dc["narrow"] = False
            cases.append({"kind": "blocks", "subject": "dist", "cfg": dc, "seed": env.subseed(seed, "c04b", i), "world": "f64",
                          "nsamp": 1500 if tier == "quick" else 6000, "cost": 4})
        else:
            fc = None
            for _ in range(200):
                fc = dzoo.sample_program_flow(rng, 1 if i % 4 == 1 else 2)
                if fc["ctx"]:
                    break
            if not fc["ctx"]:
                continue
            cases.append({"kind": "blocks", "subject": "flow", "cfg": fc, "seed": env.subseed(seed, "c04b", i), "world": "f64",
                          "nsamp": 1500 if tier == "quick" else 6000, "cost": 5})
    for i in range(4 if tier == "quick" else 40):
        cases.append({"kind": "scalar_event", "variant": i % 4, "cfg": {"flow": "scalar_event", "D": 0}, "seed": env.subseed(seed, "c04s", i),
                      "world": "f64", "cost": 1})
    return cases


def make_flow(cfg, seed):
    from checks import c03
    if cfg.get("base") == "diag":
        cfg["base"] = "standard"       # DiagonalNormal documents that it offers no sampling
    if "parts" in cfg:
        # Sigmoid..Logit pairs clamp at eps (declared approximation): noise beyond +-13.8/T cannot be round-tripped.
        # Sampling draws such noise freely, so these families are left to C02/C03, where inputs are placed inside the band.
        keep = [c for c in cfg["parts"] if c["fam"] not in ("squash_pair", "composite_cdf")]
        cfg["parts"] = keep or [{"fam": "lu", "shape": [cfg["D"]], "cache": False, "idinit": False}]
        # sampling: a LogTanh goes first (data side) so that its exploding inverse is applied last (see dzoo.sample_flow_cfg)
        cfg["parts"].sort(key=lambda c: 0 if c["fam"] == "logtanh" else 1)
    return c03.make_flow(cfg, seed)


def contexts(cfg, rows, g):
    if not cfg.get("ctx"):
        return None
    w = dzoo.embed_width(cfg) if cfg.get("embed") else cfg["ctx"]
    # rows far apart so that using the wrong row is unmistakable
    base = torch.randn(rows, w, generator=g)
    return base + 3.0 * torch.arange(rows, dtype=base.dtype)[:, None] * torch.sign(torch.randn(1, w, generator=g))


class NoiseRecorder:
    """instance-level wrapper of the base distribution's sampling methods"""

    def __init__(self, dist):
        self.dist = dist
        self.noise = None
        self._sample = dist.sample
        self._salp = dist.sample_and_log_prob
        dist.sample = self.sample
        dist.sample_and_log_prob = self.salp

    def sample(self, *a, **k):
        out = self._sample(*a, **k)
        self.noise = out.detach().clone()
        return out

    def salp(self, *a, **k):
        out = self._salp(*a, **k)
        self.noise = out[0].detach().clone()
        return out

    def remove(self):
        del self.dist.sample
        del self.dist.sample_and_log_prob


def run_blocks(r, case):
    """sample(n, ctx)[i] must have the law of sample(n, ctx[i:i+1])[0]: the single-row call cannot mix rows up, so it is the
    reference; the 1-D statistic d_ij(x) = log p(x|c_i) - log p(x|c_j) is compared between the two (two-sample z-test on the
    mean at 8 sigma and two-sample KS at alpha = 1e-9), and Gibbs' inequality E_{p_i}[d_ij] >= 0 is asserted on the joint block."""
    cfg, seed, n = case["cfg"], case["seed"], case["nsamp"]
    g = torch.Generator().manual_seed(seed)
    if case["subject"] == "dist":
        obj = dzoo.build_dist(cfg, seed, pscale=1.5)
        label = "dist_" + cfg["dist"]
        w = cfg["ctx"]
    else:
        obj = make_flow(cfg, seed)
        label = "flow/%s%s" % (cfg.get("base", "standard"), "/embed" if cfg.get("embed") else "")
        w = dzoo.embed_width(cfg) if cfg.get("embed") else cfg["ctx"]
    obj.eval()
    det = dict(subject=label, cfg=cfg)
    gibbs_ok = case["subject"] == "dist" or cfg.get("data") in ("R", "pos")
    for rows in (2, 3, 5):
        nn_ = n + (1 if rows == 3 else 0)          # 1501 draws: not a multiple of 3
        cshape = dzoo.dist_meta(cfg)["ctx_shape"] if case["subject"] == "dist" else [w]
        ctx = torch.randn([rows] + list(cshape), generator=g) * 2.0
        torch.manual_seed(seed + rows)
        try:
            with torch.no_grad():
                # generated in one go (2 rows), in batches that do not divide the count (3 rows: 1501 draws in batches of 400),
                # in many small batches (5 rows): the assembly of the batches must keep block i with context row i
                bs_ = {2: None, 3: 400, 5: 64}[rows]
                joint = obj.sample(nn_, ctx) if bs_ is None else obj.sample(nn_, ctx, batch_size=bs_)
                r.count("block_sets_generated_in_batches", int(bs_ is not None))
                single = [obj.sample(nn_, ctx[i:i + 1])[0] for i in range(rows)]
        except Exception as e:
            r.ev()
            r.viol("sample_raises", "%s.sample raises on a valid call" % label, exc=repr(e)[:250], exc_type=type(e).__name__, rows=rows, **det)
            return
        if joint.shape[:2] != (rows, nn_):
            r.ev()
            r.viol("shape", "%s.sample returns the wrong leading shape" % label, got=list(joint.shape), expected_lead=[rows, nn_], **det)
            return

        def lp(x, i):
            with torch.no_grad():
                return obj.log_prob(x, ctx[i:i + 1].expand(x.shape[0], *ctx.shape[1:])).double()
        crit = 3.2724 * (2.0 / nn_) ** 0.5
        separated = False
        for i in range(rows):
            for j in range(rows):
                if i == j:
                    continue
                try:
                    dj = lp(joint[i], i) - lp(joint[i], j)
                    ds = lp(single[i], i) - lp(single[i], j)
                except Exception:
                    r.count("block_logprob_raised")
                    continue
                ok = torch.isfinite(dj) & (dj.abs() < 1e6)
                oks = torch.isfinite(ds) & (ds.abs() < 1e6)
                if ok.float().mean() < 0.999 or oks.float().mean() < 0.999:
                    r.count("block_pairs_skipped_nonfinite")
                    continue
                dj, ds = dj[ok], ds[oks]
                r.ev(2)
                r.count("block_pair_tests")
                mj, ms = float(dj.mean()), float(ds.mean())
                sej, ses = float(dj.std()) / len(dj) ** 0.5, float(ds.std()) / len(ds) ** 0.5
                se = (sej ** 2 + ses ** 2) ** 0.5 + 1e-12
                if ms > 6 * ses:
                    separated = True
                r.worst("block_mean_z/8", abs(mj - ms) / se / 8.0)
                # KS between the two samples of the statistic
                za, zb = torch.sort(dj).values, torch.sort(ds).values
                allv = torch.cat([za, zb])
                Dks = float((torch.searchsorted(za, allv, right=True).double() / len(za)
                             - torch.searchsorted(zb, allv, right=True).double() / len(zb)).abs().max())
                r.worst("block_ks/crit", Dks / crit)
                if abs(mj - ms) > 8 * se or Dks > crit:
                    r.viol("wrong_block_law", "%s.sample(n, context)[i] is not distributed like the draws for context row i alone" % label,
                           context_row=i, against_row=j, rows=rows, n=nn_, mean_joint=mj, mean_single=ms, z=abs(mj - ms) / se,
                           ks=Dks, ks_crit=crit, **det)
                    return
                # Gibbs needs log_prob to be the samples' exact density: not so inside the declared eps clamp of the
                # Sigmoid / Logit data prefixes ((0,1) and (-1,1) data), where saturated samples sit on the clamp point
                # (absolute floor 1e-3: with contexts that barely matter the statistic resolves 1e-6, where knot-side ambiguity
                #  of piecewise-linear pieces and the cubic inverse's own tolerance show as a bias of a few 1e-5; a block drawn
                #  under the wrong row is off by the divergence between rows, which "separated" sets have at >= 1e-2)
                if gibbs_ok and mj < -8 * sej - 1e-3:
                    r.viol("gibbs", "%s.sample(n, context)[i] prefers another context row's density (Gibbs' inequality broken)" % label,
                           context_row=i, against_row=j, rows=rows, mean=mj, se=sej, **det)
                    return
        if separated:
            r.cell(label, "blocks", rows)
            r.count("block_sets_with_distinguishable_rows")
    r.sample({"subject": label, "blocks_tested": True})


def run_scalar_event(r, case):
    """flows over a SCALAR event (StandardNormal([]), samples of shape [n]): elementwise transforms reduce over "all but the batch
    dimension", which is no dimension at all here"""
    from nflows import transforms as T
    from nflows.flows.base import Flow
    from nflows.distributions.normal import StandardNormal
    seed = case["seed"]
    parts = {0: [T.LeakyReLU(0.3), T.PointwiseAffineTransform(0.5, 2.0)],
             1: [T.PointwiseAffineTransform(-1.0, 0.7), T.LeakyReLU(2.5), T.LeakyReLU(0.01)],
             2: [T.InverseTransform(T.LeakyReLU(0.2)), T.LogTanh(cut_point=2.0)],
             3: [T.InverseTransform(T.Tanh()), T.PointwiseAffineTransform(0.0, 3.0)]}[case["variant"]]
    flow = Flow(T.CompositeTransform(parts), StandardNormal([])).eval()
    label = "flow over a scalar event (variant %d)" % case["variant"]
    for n in (1, 2, 7):
        torch.manual_seed(seed + n)
        try:
            with torch.no_grad():
                s, lp = flow.sample_and_log_prob(n)
                smp = flow.sample(n)
        except Exception as e:
            r.ev()
            r.viol("salp_raises", "flow.sample_and_log_prob raises on a valid call", exc=repr(e)[:250], exc_type=type(e).__name__, n=n,
                   subject=label)
            return
        r.ev()
        if tuple(s.shape) != (n,) or tuple(lp.shape) != (n,) or tuple(smp.shape) != (n,):
            r.viol("shape", "flow.sample_and_log_prob returns mismatching shapes", samples=list(s.shape), log_prob=list(lp.shape),
                   expected_lead=[n], subject=label)
            return
        for k in range(n):
            r.ev()
            r.count("pairing_rows")
            if not (torch.isfinite(s[k]) and torch.isfinite(lp[k])) or abs(float(lp[k])) > 50:
                r.count("skipped_illconditioned_rows")
                continue
            with torch.no_grad():
                ref = flow.log_prob(s[k:k + 1])
            err = abs(float(ref) - float(lp[k]))
            if err > TOL * (1 + abs(float(ref))):
                r.viol("pairing", "sample_and_log_prob returns a log-prob that log_prob does not assign to that sample under that context row",
                       draw=k, returned=float(lp[k]), recomputed=float(ref), n=n, subject=label)
                return
        r.cell(0, "standard", "noctx", "scalar_event", case["variant"])
    r.count("noise_replay_rows", 0)
    r.sample({"flow": label})


def run_case(case):
    r = R(case)
    cfg, seed = case["cfg"], case["seed"]
    if case["kind"] == "scalar_event":
        try:
            run_scalar_event(r, case)
        except Exception as e:
            r.inconc("harness failure: %r" % (e,))
        return r.done()
    if case["kind"] == "blocks":
        try:
            run_blocks(r, case)
        except Exception as e:
            r.inconc("harness failure: %r" % (e,))
        return r.done()
    try:
        flow = make_flow(cfg, seed)
    except Exception as e:
        r.inconc("construction failed %r" % (e,))
        return r.done()
    g = torch.Generator().manual_seed(seed)
    D = cfg["D"]
    label = "%dd/%s/%s%s" % (D, cfg.get("base", "standard"), cfg["flow"], "/embed" if cfg.get("embed") else "")
    det = dict(cfg=cfg)
    if case["kind"] == "ks":
        return run_ks(r, case, flow, g, label, det)
    # phase 0: the model as built; phase 1: after its VALUES changed the legitimate way (train(), new parameter values, eval()), called
    # with the very context tensors of phase 0 - samples and densities must still agree row by row (anything sample() remembers about
    # an earlier embedding / conditioning of the same context object shows against log_prob of a fresh slice)
    ctx_store = {}
    for phase in (0, 1):
        if phase == 1:
            try:
                flow.train()
                with torch.no_grad():
                    gg = torch.Generator().manual_seed(seed + 991)
                    for p_ in flow.parameters():
                        p_.add_(0.05 * torch.randn(p_.shape, generator=gg, dtype=torch.float64).to(p_.dtype))
                flow.eval()
                r.count("value_update_phases")
            except Exception:
                break
        # phase 1 starts with the context object used LAST in phase 0 (a one-slot memo holds that one)
        for rows in ((None,) if not cfg.get("ctx") else ((1, 3, 4) if phase == 0 else (4, 3, 1))):
            ctx = ctx_store.setdefault(rows, contexts(cfg, rows, g) if phase == 0 else None) if rows else None
            for n in ((1, 2, 7) if phase == 0 else (2,)):
                # ---------------- 1. pairing
                torch.manual_seed(seed + n)
                try:
                    with torch.no_grad():
                        s, lp = flow.sample_and_log_prob(n, ctx)
                except Exception as e:
                    r.ev()
                    r.viol("salp_raises", "flow.sample_and_log_prob raises on a valid call", exc=repr(e)[:250], exc_type=type(e).__name__,
                           rows=rows, n=n, **det)
                    continue
                exp_lead = (n,) if ctx is None else (rows, n)
                if tuple(s.shape[:len(exp_lead)]) != exp_lead or tuple(lp.shape) != exp_lead:
                    r.ev()
                    r.viol("shape", "flow.sample_and_log_prob returns mismatching shapes", samples=list(s.shape), log_prob=list(lp.shape),
                           expected_lead=list(exp_lead), **det)
                    continue
                sf = s.reshape(-1, *s.shape[len(exp_lead):])
                lpf = lp.reshape(-1)
                for k in range(sf.shape[0]):
                    i = k // n if ctx is not None else None
                    ci = ctx[i:i + 1] if ctx is not None else None
                    r.ev()
                    r.count("pairing_rows")
                    if not torch.isfinite(sf[k]).all() or not torch.isfinite(lpf[k]) or abs(float(lpf[k])) > 50 or _in_clamp_band(cfg, sf[k]):
                        r.count("skipped_illconditioned_rows")
                        continue
                    try:
                        with torch.no_grad():
                            ref = flow.log_prob(sf[k:k + 1], ci)
                    except Exception as e:
                        r.count("row_logprob_raised")
                        continue
                    err = abs(float(ref) - float(lpf[k]))
                    r.worst("pairing_err/tol", err / (TOL * (1 + abs(float(ref)))))
                    if err > TOL * (1 + abs(float(ref))):
                        # conditioning fallback: the round trip may amplify rounding where the map is steep
                        if _steep(flow, sf[k:k + 1], ci):
                            r.count("skipped_illconditioned_rows")
                            continue
                        r.viol("pairing", "sample_and_log_prob returns a log-prob that log_prob does not assign to that sample under that context row",
                               context_row=i, draw=k % n, returned=float(lpf[k]), recomputed=float(ref), rows=rows, n=n, **det)
                        break
                # ---------------- 2. hooked noise
                rec = NoiseRecorder(flow._distribution)
                try:
                    torch.manual_seed(seed + 100 + n)
                    with torch.no_grad():
                        smp = flow.sample(n, ctx)
                    noise = rec.noise
                except Exception as e:
                    r.ev()
                    r.viol("sample_raises", "flow.sample raises on a valid call", exc=repr(e)[:250], exc_type=type(e).__name__, rows=rows,
                           n=n, **det)
                    continue
                finally:
                    rec.remove()
                if tuple(smp.shape[:len(exp_lead)]) != exp_lead:
                    r.ev()
                    r.viol("shape", "flow.sample returns the wrong leading shape", got=list(smp.shape), expected_lead=list(exp_lead), **det)
                    continue
                if noise is None:
                    r.inconc("noise hook never fired")
                    continue
                nf = noise.reshape(-1, *noise.shape[len(exp_lead):]) if noise.dim() > len(exp_lead) else noise.reshape(-1, D)
                sf = smp.reshape(-1, *smp.shape[len(exp_lead):])
                if nf.shape[0] != sf.shape[0]:
                    r.viol("noise_count", "number of noise draws differs from the number of samples", noise=list(noise.shape),
                           samples=list(smp.shape), **det)
                    continue
                distinct = False
                for k in range(sf.shape[0]):
                    i = k // n if ctx is not None else None
                    ci = ctx[i:i + 1] if ctx is not None else None
                    r.ev()
                    r.count("noise_replay_rows")
                    try:
                        with torch.no_grad():
                            emb = flow._embedding_net(ci)
                            ref, _ = flow._transform.inverse(nf[k:k + 1], emb)
                            back = flow.transform_to_noise(sf[k:k + 1], ci)
                    except Exception:
                        r.count("row_replay_raised")
                        continue
                    if not torch.isfinite(ref).all() or _in_clamp_band(cfg, sf[k]):
                        continue
                    e1 = float((ref[0] - sf[k]).abs().max())
                    sc = 1 + float(ref.abs().max())
                    if e1 > 1e-9 * sc:
                        r.viol("wrong_block", "sample(n, context)[i, j] is not the transform's inverse of its noise under context row i",
                               context_row=i, draw=k % n, err=e1, rows=rows, n=n, **det)
                        break
                    e2 = float((back[0] - nf[k]).abs().max())
                    if e2 > TOL * (1 + float(nf[k].abs().max())) and not _steep(flow, sf[k:k + 1], ci):
                        r.viol("noise_roundtrip", "transform_to_noise(sample, context row) does not give the recorded noise back",
                               context_row=i, draw=k % n, err=e2, **det)
                        break
                    if k and not torch.equal(sf[k], sf[0]):
                        distinct = True
                if distinct or sf.shape[0] == 1:
                    r.cell(D, cfg.get("base", "standard"), "noctx" if ctx is None else ("embed" if cfg.get("embed") else "ctx%d" % rows), "rows")
    r.sample({"flow": label, "ctx": cfg.get("ctx"), "embed": bool(cfg.get("embed"))})
    return r.done()


def _in_clamp_band(cfg, x):
    """data on (0,1) through Logit: within eps=1e-6 of an end-point the declared clamp applies"""
    if cfg.get("data") == "unit":
        return bool(((x < 2e-6) | (x > 1 - 2e-6)).any())
    return False


def _steep(flow, x, c):
    """True if the data->noise map is so steep / flat at x that a 1e-6 verdict is not decidable."""
    try:
        J = torch.autograd.functional.jacobian(lambda z: flow.transform_to_noise(z[None], c)[0], x[0])
        sv = torch.linalg.svdvals(J.reshape(x[0].numel(), -1))
        return not (float(sv.min()) > 1e-6 and float(sv.max()) < 1e6)
    except Exception:
        return True


def run_ks(r, case, flow, g, label, det):
    cfg, seed = case["cfg"], case["seed"]
    dom = dzoo.DATA_DOM[cfg.get("data", "R")]
    N = case["nsamp"]
    crit = q.ks_crit(N)
    for row in range(1 if not cfg.get("ctx") else 2):
        ctx_row = contexts(cfg, 2, g)[row:row + 1] if cfg.get("ctx") else None

        def logp(x):
            with torch.no_grad():
                return flow.log_prob(x, ctx_row.expand(x.shape[0], -1) if ctx_row is not None else None)
        rec = NoiseRecorder(flow._distribution)
        try:
            torch.manual_seed(seed + row)
            with torch.no_grad():
                s = flow.sample(N, ctx_row)
            noise = rec.noise
        except Exception as e:
            r.ev()
            r.viol("sample_raises", "flow.sample raises on a valid call", exc=repr(e)[:250], exc_type=type(e).__name__, **det)
            continue
        finally:
            rec.remove()
        s = s.reshape(-1)
        fin = torch.isfinite(s)
        try:
            cen, sca = q.placement(s[fin]) if dom[0] == "R" and fin.any() else (0.0, 1.0)
            I1, I2, est, (gx, gcdf) = q.integrate_1d(logp, dom, 100000, center=cen, scale=sca)
        except Exception as e:
            r.count("density_raised")
            continue
        if not np.isfinite(I2) or est > 1e-3 or abs(I2 - 1) > 2e-3:
            r.count("ks_undecided_density")
            continue
        if float((~fin).double().mean()) > 1e-4:
            r.viol("nonfinite_samples", "flow.sample returns non-finite samples", fraction=float((~fin).double().mean()), **det)
            continue
        r.ev()
        r.count("ks_tests")
        Dks = q.ks_distance(s[fin], gx, gcdf)
        r.worst("ks/crit", Dks / crit)
        if Dks > crit:
            r.viol("law", "samples of a flow are not distributed according to exp(log_prob)", ks=Dks, critical=crit, n=int(fin.sum()),
                   context_row=row, **det)
        else:
            r.cell(1, cfg.get("base", "standard"), "ctx" if ctx_row is not None else "noctx", "ks")
        # the recorded noise against the base's own density
        if noise is not None:
            base = flow._distribution
            emb = flow._embedding_net(ctx_row) if ctx_row is not None else None

            def logb(z):
                with torch.no_grad():
                    if not flow._context_used_in_base:      # a base whose methods take no context argument
                        return base.log_prob(z)
                    return base.log_prob(z, emb.expand(z.shape[0], -1) if emb is not None else None)
            try:
                bc, bs = q.placement(noise.reshape(-1))
                b1, b2, best, (bx, bcdf) = q.integrate_1d(logb, ("R",), 50000, center=bc, scale=bs)
                if best < 1e-3 and abs(b2 - 1) < 2e-3:
                    r.ev()
                    r.count("ks_tests")
                    Db = q.ks_distance(noise.reshape(-1), bx, bcdf)
                    r.worst("ks_noise/crit", Db / crit)
                    if Db > crit:
                        r.viol("noise_law", "the noise handed to the transform does not follow the base distribution's density", ks=Db,
                               critical=crit, base=cfg.get("base"), **det)
            except Exception:
                r.count("base_density_raised")
    r.sample({"flow": label, "ks_samples": N, "critical": crit})
    return r.done()
