"""C05 - base distributions are normalised, sample their own density, report true means.

Monitors (all on the real objects)
 * exact summation over {0,1}^D for ConditionalIndependentBernoulli;
 * quadrature (vf.monitors.quadrature) of exp(log_prob) for event dimension 1-2 (normals, MADEMoG, KDE over the query
   space), tensor Gauss-Legendre over the box for the truncated-Gaussian prior (4-D), density x volume for the box-uniform
   style priors, self-normalised importance sampling for 3-6 dimensional normals;
 * sampling: Kolmogorov-Smirnov distance of each coordinate against the CDF obtained from the distribution's OWN
   log_prob (coordinate-conditional quadrature for factorised distributions, grid marginals for 2-D mixtures),
   alpha = 1e-9; Bernoulli frequencies by z-test at the same level;
 * mean(): tensor of the documented shape, equal to the expectation computed from log_prob by quadrature / exact sum."""
import itertools
import math

import numpy as np
import torch

from vf import env, dzoo
from vf.result import R
from vf.monitors import quadrature as q

RULE = ("subject = distribution class x event shape x parameter values x context row; one evaluation = one integral / exact sum / KS "
        "test / mean comparison; a cell (class, event shape, clause: normalised | samples | mean) is non-trivial when the parameters "
        "are not the standard ones (mean 0 / unit scale) or the clause compared non-constant values")
ASSUMPTIONS = ["integrals to 1e-4 + 4*est (1-D), 2e-3 + 4*est (2-D), 1e-3 (4-D Gauss-Legendre), 6 sigma of the Monte-Carlo error for the "
               "importance-sampling estimate (>2-D)", "KS / z-tests at alpha = 1e-9 with 2e5 draws"]
REQUIRED_COUNTS = ["normalisation_checks", "sampling_checks", "mean_checks"]
BUDGET = {"case_timeout": {"quick": 600, "thorough": 3600}}
NS = 200000


def gen_cases(tier, seed):
    rng = np.random.default_rng(seed + 101)
    cases = []
    n = 6 if tier == "quick" else 150
    shapes = [[1], [2], [3], [2, 3], [2, 1]]
    for kind in ("standard", "diag", "cond_diag", "bernoulli"):
        for i in range(n):
            shape = shapes[i % len(shapes)]
            cfg = {"dist": kind, "shape": shape}
            if kind in ("cond_diag", "bernoulli"):
                cfg["encoder"] = bool(i % 3)
                cfg["ctx"] = 2 if cfg["encoder"] else int(np.prod(shape)) * (2 if kind == "cond_diag" else 1)
            cases.append({"kind": "dist", "cfg": cfg, "seed": env.subseed(seed, "c05", kind, i), "world": "f64", "cost": 2})
    # identity encoder with the context in the layout of the event ([rows, *event[:-1], 2 * event[-1]] for the normal)
    for i, (kind, shape) in enumerate((("cond_diag", [2, 3]), ("cond_diag", [2, 1, 2]), ("bernoulli", [2, 2]), ("cond_diag", [3, 2]))):
        cases.append({"kind": "dist", "cfg": {"dist": kind, "shape": shape, "encoder": False, "ctx_layout": "structured",
                                              "ctx": int(np.prod(shape)) * (2 if kind == "cond_diag" else 1)},
                      "seed": env.subseed(seed, "c05lay", i), "world": "f64", "cost": 2})
    # saturated logits handed straight to the Bernoulli (identity encoder): sigmoid(l) rounds to exactly 1 beyond 16.6 in
    # float32 / 36.7 in float64, where formulas through the probability (x log p + (1-x) log(1-p)) produce 0 * -inf
    for i, (world, sc) in enumerate((("f32", 30.0), ("f64", 80.0), ("f32", 60.0), ("f64", 30.0))):
        shape = [[3], [2, 2]][i % 2]
        cases.append({"kind": "dist", "cfg": {"dist": "bernoulli", "shape": shape, "encoder": False, "ctx": int(np.prod(shape))},
                      "ctx_scale": sc, "seed": env.subseed(seed, "c05sat", i), "world": world, "cost": 1})
    # MADE mixtures in 3-D with random masks and several feed-forward blocks (degrees differ between layers), larger weights
    for i in range(4 if tier == "quick" else 40):
        cfg = {"dist": "mademog", "features": 3, "hidden": [8, 12][i % 2], "ctx": [0, 2][i % 2], "comps": 1 + i % 3, "blocks": 2 + i % 2,
               "residual": False, "random_mask": True, "narrow": False}
        cases.append({"kind": "dist", "cfg": cfg, "pscale": 2.0, "seed": env.subseed(seed, "c05rm", i), "world": "f64", "cost": 4})
    for i in range(n):
        cfg = {"dist": "mademog", "features": 1 + i % 2, "hidden": 8, "ctx": [0, 2][i % 2 if i % 3 else 0], "comps": 1 + i % 5,
               "blocks": 1 + i % 2, "residual": bool(i % 2), "random_mask": False, "narrow": (1 + i % 2) == 1 and i % 4 == 0}   # narrow components only in 1-D (grid resolution)
        cases.append({"kind": "dist", "cfg": cfg, "seed": env.subseed(seed, "c05m", i), "world": "f64", "cost": 4})
    for i in range(3 if tier == "quick" else 30):
        cases.append({"kind": "box", "seed": env.subseed(seed, "c05b", i), "world": "f32", "cost": 1})
        cases.append({"kind": "mg1", "seed": env.subseed(seed, "c05g", i), "world": "f32", "cost": 1})
        cases.append({"kind": "kde", "seed": env.subseed(seed, "c05k", i), "D": 1 + i % 2, "N": [1, 3, 20][i % 3], "world": "f32", "cost": 2})
    cases.append({"kind": "lotka", "seed": env.subseed(seed, "c05l"), "world": "f32", "cost": 6})
    return cases


def ks_vs_logdensity(r, samples, logp1d, dom, label, det, what):
    """KS of 1-D samples against the CDF obtained by integrating exp(logp1d)."""
    try:
        cen, sca = q.placement(samples) if dom[0] == "R" else (0.0, 1.0)
        I1, I2, est, (gx, gcdf) = q.integrate_1d(logp1d, dom, 40000, center=cen, scale=sca)
    except Exception as e:
        r.count("density_raised")
        return
    if not np.isfinite(I2) or I2 <= 0 or est > 1e-3 * max(I2, 1e-12) + 1e-12 and est / max(I2, 1e-300) > 1e-3:
        r.count("ks_undecided")
        return
    r.ev()
    r.count("sampling_checks")
    Dks = q.ks_distance(samples, gx, gcdf)
    crit = q.ks_crit(len(samples))
    r.worst("ks/crit", Dks / crit)
    if Dks > crit:
        r.viol("samples_not_from_density", "%s samples do not follow its own density" % label, ks=Dks, critical=crit, coordinate=what, **det)
        return False
    return True


def run_case(case):
    r = R(case)
    kind, seed = case["kind"], case["seed"]
    torch.manual_seed(seed)
    g = torch.Generator().manual_seed(seed)
    if kind == "dist":
        run_dist(r, case, g)
    elif kind == "box":
        run_box(r, case, g)
    elif kind == "mg1":
        run_mg1(r, case, g)
    elif kind == "kde":
        run_kde(r, case, g)
    else:
        run_lotka(r, case, g)
    return r.done()


# ----------------------------------------------------------------------------- library Distribution classes
def run_dist(r, case, g):
    cfg, seed = case["cfg"], case["seed"]
    d = dzoo.build_dist(cfg, seed, pscale=case.get("pscale", 1.0))
    d.eval()
    me = dzoo.dist_meta(cfg)
    label = "dist_" + cfg["dist"]
    shape = me["shape"]
    P = int(np.prod(shape))
    det = dict(cfg=cfg)
    for row in range(1 if not me["ctx_shape"] else 2):
        c = torch.randn([1] + me["ctx_shape"], generator=g) * case.get("ctx_scale", 1.0) if me["ctx_shape"] else None
        if c is None and me["needs_ctx"]:
            continue

        def lp(x):
            with torch.no_grad():
                return d.log_prob(x.reshape([x.shape[0]] + shape), c.expand(x.shape[0], *c.shape[1:]) if c is not None else None)
        # ---------------- normalisation
        r.ev()
        try:
            if me["discrete"]:
                pts = torch.tensor(list(itertools.product([0.0, 1.0], repeat=P)))
                tot = float(torch.exp(lp(pts).double()).sum())
                r.count("normalisation_checks")
                r.worst("bernoulli_sum_err", abs(tot - 1))
                if not abs(tot - 1) <= (1e-9 if torch.get_default_dtype() == torch.float64 else 1e-5):
                    r.viol("not_normalised", "%s probabilities do not sum to one" % label, total=tot, **det)
                else:
                    r.cell(label, shape, "normalised")
                # binary data as it is usually stored (bytes, integers, booleans - the library's own mask helpers return uint8): the
                # outcomes 0 / 1 are the same outcomes, and their probabilities the same numbers
                ref_lp = lp(pts).double()
                for dt_ in (torch.uint8, torch.int64, torch.bool):
                    r.ev()
                    r.count("integer_outcome_checks")
                    try:
                        got_lp = lp(pts.to(dt_)).double()
                    except Exception as e:
                        r.viol("log_prob_raises", "%s.log_prob raises on a valid call" % label, outcome_dtype=str(dt_), exc=repr(e)[:200], **det)
                        continue
                    if got_lp.shape != ref_lp.shape or float((got_lp - ref_lp).abs().max()) > 1e-6:
                        r.viol("not_normalised", "%s probabilities do not sum to one" % label, outcome_dtype=str(dt_),
                               total=float(torch.exp(got_lp).sum()), max_logprob_diff=float((got_lp - ref_lp).abs().max()), **det)
            elif P == 1:
                I1, I2, est, _ = q.integrate_1d(lambda x: lp(x), ("R",), 100000)
                _judge_int(r, label, I2, est, 1e-4, 1e-3, shape, det)
            elif P == 2:
                I1, I2, est = q.integrate_2d(lambda x: lp(x), ("R",), ("R",), 300)
                _judge_int(r, label, I2, est, 2e-3, 1e-2, shape, det)
            elif cfg["dist"] == "mademog" and P == 3 and me["can_sample"]:
                with torch.no_grad():
                    sp_ = d.sample(20000, c)
                sp_ = sp_.reshape(-1, P) if c is None else sp_[0].reshape(-1, P)
                t64, t112, t160 = _grid3(lp, sp_, 64)[0], _grid3(lp, sp_, 112)[0], _grid3(lp, sp_, 160)[0]
                r.worst("grid3_cell_mass", _grid3.cell_mass)
                if _grid3.cell_mass > 0.02 or abs(t160 - t112) > 3e-3 or abs(t112 - t64) > 3e-2:
                    # needles below the grid spacing, or heavy-tailed / multi-scale densities on which the three
                    # resolutions do not settle (0.68 -> 0.93 -> 0.91 was observed): not decidable by this grid
                    r.count("normalisation_checks")
                    r.count("integrals_undecided")
                else:
                    # the midpoint rule on multi-scale mixtures does not converge monotonically (1.0098 -> 0.9926 -> 0.9938 ->
                    # 0.9979 -> 1.0004 at 64 ... 300 nodes per axis was observed on a correctly normalised density): the error
                    # estimate takes the coarser pair into account
                    # ... and the verdict tolerance is 2e-2: three resolutions agreeing to 5e-4 on 0.9921 were observed for a
                    # density whose masks are strictly autoregressive (hence normalised); leaking masks lose 7 % and more
                    _judge_int(r, label, t160, max(abs(t160 - t112), 0.5 * abs(t112 - t64)), 2e-2, 2e-2, shape, det)
            else:
                _importance(r, d, lp, label, shape, P, me, c, g, det)
        except Exception as e:
            r.viol("log_prob_raises", "%s.log_prob raises on valid inputs" % label, exc=repr(e)[:250], exc_type=type(e).__name__,
                   shape=shape, **det)
            continue
        # ---------------- sampling
        s = None
        if me["can_sample"]:
            try:
                with torch.no_grad():
                    s = d.sample(NS, c)
                s = s.reshape(NS, P) if c is None else s[0].reshape(NS, P)
            except Exception as e:
                r.ev()
                r.viol("sample_raises", "%s.sample raises on a valid call" % label, exc=repr(e)[:250], exc_type=type(e).__name__, **det)
                s = None
        if s is not None:
            if me["discrete"]:
                with torch.no_grad():
                    # marginal P(x_k = 1) by exact summation of the joint
                    pts = torch.tensor(list(itertools.product([0.0, 1.0], repeat=P)))
                    pj = torch.exp(lp(pts).double())
                    marg = (pj[:, None] * pts.double()).sum(0)
                freq = s.double().mean(0)
                # exact-tail (Chernoff) test instead of a normal approximation: with saturated logits the expected count is
                # far below one.  torch.rand has 24 (float32) / 53 (float64) bits, so `rand < p` fires with probability
                # ceil(p 2^24) / 2^24: the effective success probability lies in [p, p + granularity].
                gran = 2.0 ** -24 if s.dtype == torch.float32 else 2.0 ** -53
                worst_log = 0.0
                for kk in range(P):
                    cnt = float(freq[kk]) * NS
                    lam_lo, lam_hi = float(marg[kk]) * NS, min(float(marg[kk]) + gran, 1.0) * NS
                    for lam, wrong_side in ((lam_hi, cnt > lam_hi), (lam_lo, cnt < lam_lo)):
                        if not wrong_side:
                            continue
                        # successes and failures are symmetric: bound the tail of the rarer outcome
                        for c_, l_ in ((cnt, lam), (NS - cnt, NS - lam)):
                            if l_ <= 0:
                                logb = 0.0 if c_ <= 0 else -1e9
                            elif c_ <= 0:
                                logb = -l_
                            else:
                                logb = -l_ + c_ * (1.0 + math.log(l_ / c_))      # log of (e^-l (e l / c)^c)
                            worst_log = min(worst_log, logb)
                r.ev()
                r.count("sampling_checks")
                r.worst("bernoulli_tail_logbound/ln(1e-9)", worst_log / math.log(1e-9))
                if worst_log < math.log(1e-9):          # alpha = 1e-9 per coordinate and side
                    r.viol("samples_not_from_density", "%s samples do not follow its own probabilities" % label,
                           frequencies=freq.tolist(), probabilities=marg.tolist(), **det)
                else:
                    r.cell(label, shape, "samples")
            elif cfg["dist"] == "mademog" and P == 2:
                # grid marginals of the joint density
                GN = 1400
                (c0, s0), (c1, s1) = q.placement(s[:, 0]), q.placement(s[:, 1])
                x0, w0 = q.grid_1d(("R",), GN, center=c0, scale=s0)
                x1, w1 = q.grid_1d(("R",), GN, center=c1, scale=s1)
                pj = torch.zeros(GN, GN, dtype=torch.float64)
                for a in range(0, GN, 100):
                    pts = torch.stack([x0[a:a + 100, None].expand(-1, GN), x1[None, :].expand(100, -1)], -1).reshape(-1, 2)
                    pj[a:a + 100] = torch.exp(lp(pts).double()).reshape(100, GN)
                for k in range(2):
                    m = (pj * w1[None, :]).sum(1) if k == 0 else (pj * w0[:, None]).sum(0)
                    xk, wk = (x0, w0) if k == 0 else (x1, w1)
                    cdf = torch.cumsum(m * wk, 0) - 0.5 * m * wk      # mass left of each node centre
                    if abs(float((m * wk).sum()) - 1) > 2e-2:
                        r.count("ks_undecided")
                        continue
                    r.ev()
                    r.count("sampling_checks")
                    tot_ = (m * wk).sum()
                    Dks = q.ks_distance(s[:, k], torch.cat([xk, xk[-1:] + 1.0]), torch.cat([cdf, tot_[None]]))
                    crit = q.ks_crit(NS) + 1e-3      # grid-marginal resolution
                    r.worst("ks/crit", Dks / crit)
                    if Dks > crit:
                        r.viol("samples_not_from_density", "%s samples do not follow its own density" % label, ks=Dks, critical=crit,
                               coordinate=k, **det)
                    else:
                        r.cell(label, shape, "samples")
            elif cfg["dist"] == "mademog" and P == 3:
                # not factorised: marginals from a 3-D tensor grid of the joint density (two resolutions)
                res = {}
                for GN in (80, 112):
                    res[GN] = _grid3(lp, s, GN)
                tot_lo, tot_hi = res[80][0], res[112][0]
                if abs(tot_lo - tot_hi) > 3e-3 or abs(tot_hi - 1) > 5e-3 or _grid3.cell_mass > 0.02:
                    r.count("ks_undecided")      # under-resolved (normalisation itself is judged above)
                else:
                    for k in range(3):
                        dk = {}
                        for GN in (80, 112):
                            xk, wk, m = res[GN][1][k]
                            cdf = torch.cumsum(m * wk, 0) - 0.5 * m * wk
                            tot_ = (m * wk).sum()
                            dk[GN] = q.ks_distance(s[:, k], torch.cat([xk, xk[-1:] + 1.0]), torch.cat([cdf, tot_[None]]))
                        r.ev()
                        r.count("sampling_checks")
                        Dks = dk[112]
                        # grid-marginal resolution: a distance that is an artefact of the grid shrinks with the resolution
                        # (0.035 -> 0.021 -> 0.011 at 80 / 112 / 160 nodes was observed), a real mismatch does not
                        crit = q.ks_crit(NS) + 3e-3 + 3 * abs(tot_hi - 1) + 2 * abs(dk[80] - dk[112])
                        r.worst("ks/crit", Dks / crit)
                        if Dks > crit:
                            r.viol("samples_not_from_density", "%s samples do not follow its own density" % label, ks=Dks,
                                   critical=crit, coordinate=k, **det)
                            break
                    else:
                        r.cell(label, shape, "samples")
            else:
                ks_ok = True
                for k in list(range(P))[:3]:
                    # factorised: the conditional of coordinate k given the others IS its marginal
                    x_fix = s[0].clone()

                    def lp1(x, k=k):
                        z = x_fix[None].repeat(x.shape[0], 1)
                        z[:, k] = x[:, 0]
                        return lp(z)
                    res = ks_vs_logdensity(r, s[:, k], lp1, ("R",), label, det, k)
                    ks_ok &= res is not False
                if ks_ok:
                    r.cell(label, shape, "samples")
        # ---------------- sample_and_log_prob of the distribution itself: the returned samples are draws (same law as
        # sample()) and the returned values are log_prob of exactly those samples
        if me["can_sample"]:
            try:
                torch.manual_seed(seed + 17)
                with torch.no_grad():
                    s2, lp2 = d.sample_and_log_prob(2000, c)
                    s2 = s2 if c is None else s2[0]
                    lp2 = lp2 if c is None else lp2[0]
                    ref2 = lp(s2.clone())
                r.ev()
                r.count("salp_pairing_checks")
                tolp = 1e-9 if torch.get_default_dtype() == torch.float64 else 1e-4
                okf = torch.isfinite(ref2) & torch.isfinite(lp2)
                if okf.any() and float((ref2 - lp2).abs()[okf].max()) > tolp * (1 + float(ref2.abs()[okf].max())):
                    r.viol("pairing", "%s.sample_and_log_prob returns values that are not log_prob of the returned samples" % label,
                           max_diff=float((ref2 - lp2).abs()[okf].max()), **det)
                elif s is not None and not me["discrete"]:
                    a1 = s.reshape(s.shape[0], -1)[:, 0].double()
                    b1 = s2.reshape(2000, -1)[:, 0].double()
                    za, zb = torch.sort(a1).values, torch.sort(b1).values
                    allv = torch.cat([za, zb])
                    Dks = float((torch.searchsorted(za, allv, right=True).double() / len(za)
                                 - torch.searchsorted(zb, allv, right=True).double() / len(zb)).abs().max())
                    crit2 = 3.2724 * ((len(za) + len(zb)) / (len(za) * len(zb))) ** 0.5
                    r.worst("salp_ks/crit", Dks / crit2)
                    if Dks > crit2:
                        r.viol("samples_not_from_density", "%s.sample_and_log_prob returns samples with another law than sample()" % label,
                               ks=Dks, critical=crit2, **det)
            except Exception as e:
                r.count("salp_raised")
        # ---------------- mean
        if me["has_mean"]:
            r.ev()
            r.count("mean_checks")
            try:
                m = d.mean(c)
            except Exception as e:
                r.viol("mean_raises", "%s.mean raises" % label, exc=repr(e)[:200], **det)
                continue
            want_shape = tuple(shape) if c is None else (1,) + tuple(shape)
            if not isinstance(m, torch.Tensor):
                r.viol("mean_type", "%s.mean does not return a tensor" % label, got=type(m).__name__, **det)
                continue
            if tuple(m.shape) != want_shape:
                r.viol("mean_shape", "%s.mean returns the wrong shape" % label, got=list(m.shape), expected=list(want_shape), **det)
                continue
            if c is None and not me["needs_ctx"] and cfg["dist"] in ("standard", "diag"):
                # unconditional distributions take a context only for its row count: one copy of the mean per row
                try:
                    mk = d.mean(torch.zeros(3, 2))
                    r.ev()
                    r.count("mean_with_context_rows")
                    if tuple(mk.shape) != (3,) + tuple(shape) or not bool((mk == m[None]).all()):
                        r.viol("mean_shape", "%s.mean(context) is not one copy of the mean per context row" % label,
                               got=list(mk.shape), expected=[3] + list(shape), **det)
                except Exception as e:
                    r.viol("mean_raises", "%s.mean raises" % label, exc=repr(e)[:200], with_context_rows=3, **det)
            mflat = m.detach().reshape(-1).double()
            # expectation from log_prob
            if me["discrete"]:
                pts = torch.tensor(list(itertools.product([0.0, 1.0], repeat=P)))
                with torch.no_grad():
                    pj = torch.exp(lp(pts).double())
                ref = (pj[:, None] * pts.double()).sum(0)
                tol = 1e-9 if torch.get_default_dtype() == torch.float64 else 2e-6
            else:
                ref = torch.zeros(P, dtype=torch.float64)
                base_pt = (s[0].clone() if s is not None else torch.zeros(P))
                for k in range(P):
                    def lp1(x, k=k):
                        z = base_pt[None].repeat(x.shape[0], 1).to(x.dtype)
                        z[:, k] = x[:, 0]
                        return lp(z)
                    gx, gw = q.grid_1d(("R",), 40000)
                    with torch.no_grad():
                        pk = torch.exp(lp1(gx[:, None]).double())
                    ref[k] = float((pk * gw * gx).sum() / (pk * gw).sum())
                tol = 1e-4
            err = float((mflat - ref).abs().max())
            r.worst("mean_err/tol", err / (tol * (1 + float(ref.abs().max()))))
            if err > tol * (1 + float(ref.abs().max())):
                r.viol("mean_wrong", "%s.mean is not the expectation of its own density" % label, mean=mflat.tolist(),
                       expectation=ref.tolist(), **det)
            else:
                r.cell(label, shape, "mean")
    r.sample({"subject": label, "shape": shape})


def _judge_int(r, label, I, est, tol, lim, shape, det):
    r.count("normalisation_checks")
    if not np.isfinite(I) or est > lim:
        r.count("integrals_undecided")
        return
    r.worst("integral_err/allowed", abs(I - 1) / (tol + 4 * est))
    if abs(I - 1) > tol + 4 * est:
        r.viol("not_normalised", "%s density does not integrate to one" % label, integral=I, estimate=est, shape=shape, **det)
    else:
        r.cell(label, shape, "normalised")


def _grid3(lp, samples, GN):
    """(integral, [(nodes, weights, marginal density) per axis]) of a 3-D density on a tensor grid placed at the samples' quantiles"""
    axes = []
    for k in range(3):
        cen, sca = q.placement(samples[:, k])
        axes.append(q.grid_1d(("R",), GN, center=cen, scale=sca))
    (x0, w0), (x1, w1), (x2, w2) = axes
    pj = torch.zeros(GN, GN, GN, dtype=torch.float64)
    for a in range(GN):
        pts = torch.stack([x0[a].expand(GN, GN), x1[:, None].expand(GN, GN), x2[None, :].expand(GN, GN)], -1).reshape(-1, 3)
        with torch.no_grad():
            pj[a] = torch.exp(lp(pts.to(torch.get_default_dtype())).double()).reshape(GN, GN)
    W = w0[:, None, None] * w1[None, :, None] * w2[None, None, :]
    total = float((pj * W).sum())
    # resolution adequacy: the midpoint rule is meaningful only where one cell holds a small share of the mass; judged at
    # the samples (density there x volume of the cell they fall into) - needles (component stds far below the spacing)
    # leave both resolutions equally wrong, so agreement between resolutions alone proves nothing
    sub = samples[:4000].double()
    idx = [torch.bucketize(sub[:, k].contiguous(), axes[k][0]).clamp(0, GN - 1) for k in range(3)]
    vol = axes[0][1][idx[0]] * axes[1][1][idx[1]] * axes[2][1][idx[2]]
    with torch.no_grad():
        dens = torch.exp(lp(sub.to(torch.get_default_dtype())).double())
    _grid3.cell_mass = float(torch.quantile(dens * vol, 0.995))
    m0 = (pj * (w1[:, None] * w2[None, :])[None]).sum((1, 2))
    m1 = (pj * (w0[:, None] * w2[None, :])[:, None, :]).sum((0, 2))
    m2 = (pj * (w0[:, None] * w1[None, :])[:, :, None]).sum((0, 1))
    return total, [(x0, w0, m0), (x1, w1, m1), (x2, w2, m2)]


def _importance(r, d, lp, label, shape, P, me, c, g, det):
    """self-normalised check in > 2 dimensions: E_q[p/q] = 1 with q a product Gaussian matched to the density's own
    coordinate-conditionals (location / scale from 1-D quadrature of log_prob)."""
    base = torch.zeros(P)
    mu, sd = torch.zeros(P, dtype=torch.float64), torch.ones(P, dtype=torch.float64)
    gx, gw = q.grid_1d(("R",), 20000)
    for k in range(P):
        z = base[None].repeat(len(gx), 1).double()
        z[:, k] = gx
        with torch.no_grad():
            pk = torch.exp(lp(z.to(torch.get_default_dtype())).double())
        Z = (pk * gw).sum()
        mu[k] = (pk * gw * gx).sum() / Z
        sd[k] = torch.sqrt(((pk * gw * (gx - mu[k]) ** 2).sum() / Z).clamp_min(1e-12))
    n = 400000
    zq = torch.randn(n, P, generator=g, dtype=torch.float64)
    x = mu + 1.3 * sd * zq
    logq = (-0.5 * zq ** 2 - 0.5 * math.log(2 * math.pi) - torch.log(1.3 * sd)).sum(1)
    with torch.no_grad():
        w = torch.exp(lp(x.to(torch.get_default_dtype())).double() - logq)
    est = float(w.mean())
    se = float(w.std() / math.sqrt(n))
    r.count("normalisation_checks")
    r.worst("importance_err/6se", abs(est - 1) / (6 * se + 1e-4))
    if abs(est - 1) > 6 * se + 1e-4:
        r.viol("not_normalised", "%s density does not integrate to one (importance-sampling estimate)" % label, estimate=est,
               standard_error=se, shape=shape, **det)
    else:
        r.cell(label, shape, "normalised")


# ----------------------------------------------------------------------------- box-uniform style priors
def run_box(r, case, g):
    from nflows.distributions.uniform import BoxUniform
    D = 1 + case["seed"] % 3
    low = torch.randn(D, generator=g) * 2
    high = low + 0.3 + 3 * torch.rand(D, generator=g)
    b = BoxUniform(low, high)
    vol = float(torch.prod(high - low))
    x = low + (high - low) * torch.rand(500, D, generator=g)
    r.ev()
    r.count("normalisation_checks")
    lp = b.log_prob(x)
    if tuple(lp.shape) != (500,):
        r.viol("shape", "BoxUniform.log_prob does not return one value per row", got=list(lp.shape))
    elif float((torch.exp(lp.double()) * vol - 1).abs().max()) > 1e-5:
        r.viol("not_normalised", "BoxUniform density x volume != 1", value=float(torch.exp(lp[0]) * vol))
    else:
        r.cell("box_uniform", D, "normalised")
    s = b.sample((NS,))
    r.ev()
    r.count("sampling_checks")
    ok = bool(((s >= low) & (s <= high)).all())
    u = ((s - low) / (high - low)).double()
    Dmax = max(float((torch.sort(u[:, k]).values - (torch.arange(NS, dtype=torch.float64) + 0.5) / NS).abs().max()) for k in range(D))
    r.worst("ks/crit", Dmax / q.ks_crit(NS))
    if not ok or Dmax > q.ks_crit(NS):
        r.viol("samples_not_from_density", "BoxUniform samples are not uniform on the box", ks=Dmax, inside=ok)
    else:
        r.cell("box_uniform", D, "samples")
    r.count("mean_checks", 0)
    r.sample({"box": [low.tolist(), high.tolist()]})


def run_mg1(r, case, g):
    from nflows.distributions.uniform import MG1Uniform
    low = torch.zeros(3)
    high = torch.tensor([10.0, 10.0, 1.0 / 3.0]) * (0.5 + torch.rand(3, generator=g))
    m = MG1Uniform(low=low, high=high)
    s = m.sample((NS,))
    lp = m.log_prob(s)
    r.ev()
    r.count("normalisation_checks")
    # joint density = product of the returned factors; the map noise -> parameters has unit determinant
    joint = torch.exp(lp.double().sum(-1))
    vol = float(torch.prod(high - low))
    if float((joint * vol - 1).abs().max()) > 1e-5:
        r.viol("not_normalised", "MG1Uniform joint density x support volume != 1", value=float(joint[0] * vol))
    else:
        r.cell("mg1_uniform", "normalised")
    r.ev()
    r.count("sampling_checks")
    # support: theta1 in [0, h1], theta2 - theta1 in [0, h2], theta3 in [0, h3]; uniform in those coordinates
    u = torch.stack([s[:, 0], s[:, 1] - s[:, 0], s[:, 2]], 1).double() / (high - low).double()
    ok = bool(((u >= -1e-6) & (u <= 1 + 1e-6)).all())
    Dmax = max(float((torch.sort(u[:, k]).values - (torch.arange(NS, dtype=torch.float64) + 0.5) / NS).abs().max()) for k in range(3))
    r.worst("ks/crit", Dmax / q.ks_crit(NS))
    if not ok or Dmax > q.ks_crit(NS):
        r.viol("samples_not_from_density", "MG1Uniform samples are not uniform on its support", ks=Dmax, inside=ok)
    else:
        r.cell("mg1_uniform", "samples")
    # the mean it reports (torch's `mean` attribute of a distribution) against the expectation under its own density: the support
    # is the sheared box {theta1 in [l1, h1], theta2 - theta1 in [l2, h2], theta3 in [l3, h3]}, uniform in those coordinates
    r.ev()
    r.count("mean_checks")
    mid = ((low + high) / 2).double()
    want = torch.stack([mid[0], mid[0] + mid[1], mid[2]])
    try:
        got = torch.as_tensor(m.mean).double().reshape(-1)
    except Exception as e:
        got = None
        r.count("mean_not_offered")
    if got is not None:
        emp = s.double().mean(0)
        se = s.double().std(0) / NS ** 0.5
        merr = float((got - want).abs().max())
        r.worst("mean_err/tol", merr / 1e-5)
        if got.shape != want.shape or merr > 1e-5 * (1 + float(want.abs().max())) or bool(((got - emp).abs() > 8 * se + 1e-6).any()):
            r.viol("mean_wrong", "MG1Uniform.mean is not the expectation under its own density", reported=got.tolist(),
                   expectation=want.tolist(), sample_mean=emp.tolist())
        else:
            r.cell("mg1_uniform", "mean")
    r.sample({"mg1_high": high.tolist()})


def run_kde(r, case, g):
    from nflows.utils import torchutils as tu
    D, N = case["D"], case["N"]
    samples = torch.randn(N, D, generator=g)
    r.ev()

    def lp(x):
        with torch.no_grad():
            return tu.gaussian_kde_log_eval(samples, x.to(samples.dtype)[:, None, :])
    try:
        if D == 1:
            I1, I2, est, _ = q.integrate_1d(lp, ("R",), 100000)
            _judge_int(r, "gaussian_kde", I2, est, 1e-4, 1e-3, [D], {"N": N})
        else:
            I1, I2, est = q.integrate_2d(lp, ("R",), ("R",), 300)
            _judge_int(r, "gaussian_kde", I2, est, 2e-3, 1e-2, [D], {"N": N})
    except Exception as e:
        r.viol("log_prob_raises", "gaussian_kde_log_eval raises", exc=repr(e)[:200], N=N, D=D)
    # single precision, data far from the origin relative to the bandwidth (unnormalised features): the log-density must be what
    # the same samples give in double precision (differences of nearby numbers are exact; anything that expands |q - s|^2 loses it)
    for off in (0.0, 1000.0, 5000.0):
        for Nk in (40, 400):
            sm = (torch.randn(Nk, D, generator=g) + off).float()
            qs = (torch.randn(30, D, generator=g) * 0.8 + off).float()
            try:
                with torch.no_grad():
                    a32 = tu.gaussian_kde_log_eval(sm, qs[:, None, :])
                    a64 = tu.gaussian_kde_log_eval(sm.double(), qs.double()[:, None, :])
            except Exception as e:
                r.viol("log_prob_raises", "gaussian_kde_log_eval raises", exc=repr(e)[:200], N=Nk, D=D, offset=off)
                continue
            r.ev()
            r.count("kde_precision_twins")
            errk = float((a32.double() - a64).abs().max())
            r.worst("kde_f32_vs_f64/1e-3", errk / 1e-3)
            if not errk <= 1e-3:
                r.viol("not_normalised", "gaussian_kde_log_eval in single precision departs from its double-precision value for data far "
                       "from the origin", err=errk, offset=off, N=Nk, D=D)
            else:
                r.cell("gaussian_kde", "f32_twin", off, Nk, D)
    r.count("sampling_checks", 0)
    r.count("mean_checks", 0)
    r.sample({"kde": {"N": N, "D": D}})


def run_lotka(r, case, g):
    from nflows.distributions.uniform import LotkaVolterraOscillating
    lv = LotkaVolterraOscillating()
    # 4-D tensor Gauss-Legendre over the box [-5, 2]^4 (the density is a truncated Gaussian: smooth inside)
    nodes, weights = np.polynomial.legendre.leggauss(48)
    # split each axis at the Gaussian's bulk for accuracy: map nodes to [-5,2] through three panels
    def panels(mu):
        cuts = [-5.0, max(-5.0, mu - 2.0), min(2.0, mu + 2.0), 2.0]
        xs, ws = [], []
        for a, b in zip(cuts[:-1], cuts[1:]):
            if b - a < 1e-9:
                continue
            xs.append(0.5 * (b - a) * nodes + 0.5 * (a + b))
            ws.append(0.5 * (b - a) * weights)
        return np.concatenate(xs), np.concatenate(ws)
    mus = np.log([0.01, 0.5, 1.0, 0.01])
    axes = [panels(m) for m in mus]
    r.ev()
    r.count("normalisation_checks")
    try:
        tot = 0.0
        x0, w0 = axes[0]
        rest = [torch.tensor(a[0], dtype=torch.float32) for a in axes[1:]]
        wrest = [torch.tensor(a[1], dtype=torch.float64) for a in axes[1:]]
        G = torch.stack(torch.meshgrid(*rest, indexing="ij"), -1).reshape(-1, 3)
        W = (wrest[0][:, None, None] * wrest[1][None, :, None] * wrest[2][None, None, :]).reshape(-1)
        for xi, wi in zip(x0, w0):
            pts = torch.cat([torch.full((G.shape[0], 1), float(xi)), G], 1)
            with torch.no_grad():
                p = torch.exp(lv.log_prob(pts).double())
            tot += float(wi) * float((p * W).sum())
        r.worst("lotka_integral_err", abs(tot - 1))
        if abs(tot - 1) > 1e-3:
            r.viol("not_normalised", "LotkaVolterraOscillating density does not integrate to one over its box", integral=tot)
        else:
            r.cell("lotka_volterra", "normalised")
    except Exception as e:
        r.viol("log_prob_raises", "LotkaVolterraOscillating.log_prob raises inside its box", exc=repr(e)[:200])
    r.ev()
    r.count("sampling_checks")
    try:
        s = lv.sample((NS,))
        if tuple(s.shape) != (NS, 4) or not bool(((s >= -5) & (s <= 2)).all()):
            r.viol("samples_outside", "LotkaVolterraOscillating samples have the wrong shape or leave the box", shape=list(s.shape))
        else:
            ok = True
            for k in range(4):
                def lp1(x, k=k):
                    z = torch.tensor(mus, dtype=torch.float32)[None].repeat(x.shape[0], 1)
                    z[:, k] = x[:, 0].float()
                    with torch.no_grad():
                        return lv.log_prob(z)
                res = ks_vs_logdensity(r, s[:, k], lp1, ("open", -5.0, 2.0), "LotkaVolterraOscillating", {}, k)
                ok &= res is not False
            if ok:
                r.cell("lotka_volterra", "samples")
    except Exception as e:
        r.viol("sample_raises", "LotkaVolterraOscillating.sample raises", exc=repr(e)[:250], exc_type=type(e).__name__)
    r.count("mean_checks", 0)
    r.sample({"lotka": "4-D truncated Gaussian prior"})
