"""C06 - MADE conditioners are strictly autoregressive for every architecture and every weight.

Monitors
 (a) taint / data-flow run of the REAL network: after a short call history (eval forward with the fresh weights,
     then the weights are replaced through load_state_dict by all-positive values, biases 0) the Jacobian of
     the executed computation is taken at an all-positive input.  With positive weights and monotone activations
     every path contributes a positive product and nothing is ever subtracted, so d out_k / d x_j > 0  <=>  a
     path j -> k exists in what was executed  <=>  SOME weight assignment makes out_k depend on x_j.  Required:
     no path from input j to the output block of feature i for j >= i.  Decides the 'for all weights' half
     structurally, by execution; repeated after a train()/eval() toggle (stale state).
 (b) semantic spot check with random weights: inputs j >= i replaced by arbitrary values (incl. +-1e6) leave
     block i bit-identical, in eval mode and (batch-norm / dropout under a re-seeded RNG) in training mode.
 (c) consequences: masked autoregressive transforms have lower-triangular Jacobians (zero strictly-upper part)."""
import itertools

import numpy as np
import torch
from torch.nn import functional as F

from vf import env, zoo
from vf.result import R

RULE = ("architectures enumerated over (copy of the implementation, features, hidden width, blocks, block type, random-mask "
        "draw, context, output multiplier, batch-norm, dropout, activation); one evaluation = one architecture whose "
        "reachability matrix was measured on the executed network; distinct non-trivial = distinct (copy, features, hidden, "
        "blocks, type, ctx, multiplier, bn, dropout) tuples with features >= 2 in which at least one allowed dependency "
        "(j < i) was actually observed as reachable, i.e. the taint signal demonstrably propagates")
ASSUMPTIONS = ["activations are monotone non-decreasing with positive derivative at the probe point (relu/tanh/elu/sigmoid)",
               "torch autograd sums path products exactly enough not to underflow at these sizes (<= 8 layers, width <= 520; weights 1/fan_in)"]
REQUIRED_COUNTS = ["taint_architectures", "semantic_checks", "triangular_jacobians"]
BUDGET = {"case_timeout": {"quick": 300, "thorough": 3000}}

ACTS = {"relu": F.relu, "tanh": torch.tanh, "elu": F.elu, "sigmoid": torch.sigmoid}


def _archs(tier, seed):
    rng = np.random.default_rng(seed)
    feats = [1, 2, 3, 4, 5, 6]
    hiddens = [1, 2, 3, 4, 5, 6, 7, 8, 16, 33]
    out = []
    for copy in ("transforms", "nde", "mog"):
        for Fq, H, nb in itertools.product(feats, hiddens, [0, 1, 2, 3]):
            for btype in ("residual", "ff", "ff_random"):
                draws = 1 if btype != "ff_random" else (3 if tier == "quick" else 20)
                for d in range(draws):
                    for ctx in (0, 2):
                        for mult in ((1, 2, 3) if copy != "mog" else (1, 2)):
                            for bn in (False, True):
                                for dp in (0.0, 0.5):
                                    out.append({"copy": copy, "F": Fq, "H": H, "nb": nb, "btype": btype, "draw": d,
                                                "ctx": ctx, "mult": mult, "bn": bn, "dp": dp})
    if tier == "quick":
        # covering subset: all (copy, F, btype, nb) combinations, other axes sampled
        idx = rng.permutation(len(out))
        keep, seen = [], {}
        for i in idx:
            a = out[i]
            k = (a["copy"], a["F"], a["btype"], a["nb"], a["H"] >= a["F"])
            if seen.get(k, 0) < 12:
                seen[k] = seen.get(k, 0) + 1
                keep.append(a)
        out = keep
    return out


def gen_cases(tier, seed):
    archs = _archs(tier, seed)
    n = 64 if tier == "quick" else 160
    cases = []
    for i in range(n):
        cases.append({"kind": "taint", "archs": archs[i::n], "seed": env.subseed(seed, "c06", i), "world": "f64",
                      "cost": 3})
    # wide networks: degree arithmetic beyond 255 (narrow integer types wrap), widths beyond one SIMD block
    wide = []
    for copy in ("transforms", "nde", "mog"):
        for Fq, H in ((257, 256), (260, 300), (300, 300), (130, 520)):
            for btype in ("residual", "ff", "ff_random"):
                if btype == "residual" and H < Fq:
                    continue
                for nb in (1, 2):
                    wide.append({"copy": copy, "F": Fq, "H": H, "nb": nb, "btype": btype, "draw": 0, "ctx": 0,
                                 "mult": 1 if (Fq + nb) % 2 else 2, "bn": False, "dp": 0.0})
    if tier == "quick":
        rng = np.random.default_rng(seed + 5)
        pick = []
        for copy in ("transforms", "nde", "mog"):
            cand = [a for a in wide if a["copy"] == copy and a["F"] >= 257]
            for j in rng.permutation(len(cand))[:3]:
                pick.append(cand[int(j)])
        wide = pick
    for i, a in enumerate(wide):
        cases.append({"kind": "taint", "archs": [a], "seed": env.subseed(seed, "c06w", i), "world": "f64", "cost": 8})
    for i in range(8 if tier == "quick" else 100):
        cases.append({"kind": "triangular", "seed": env.subseed(seed, "c06tri", i), "world": "f64",
                      "n": 6 if tier == "quick" else 20, "cost": 2})
    # the public building blocks stacked by hand: a residual block on a layer whose degrees do not match its own must be refused
    # or stay autoregressive (its skip connection carries the units of the layer below straight into its own units)
    for i in range(4 if tier == "quick" else 60):
        cases.append({"kind": "block_guard", "copy": ["transforms", "nde"][i % 2], "F": 3 + (i // 2) % 4, "H": 5 + i % 5,
                      "seed": env.subseed(seed, "c06blk", i), "world": "f64", "n": 40 if tier == "quick" else 200, "cost": 2})
    return cases


def run_block_guard(case):
    import importlib
    r = R(case)
    mod = importlib.import_module("nflows.transforms.made" if case["copy"] == "transforms" else "nflows.nn.nde.made")
    F_, H = case["F"], case["H"]
    for k in range(case["n"]):
        torch.manual_seed(case["seed"] + k)
        try:
            first = mod.MaskedLinear(in_degrees=torch.arange(1, F_ + 1), out_features=H, autoregressive_features=F_,
                                     random_mask=True, is_output=False)
        except Exception as e:
            r.inconc("MaskedLinear could not be built: %r" % (e,))
            break
        try:
            block = mod.MaskedResidualBlock(in_degrees=first.degrees, autoregressive_features=F_)
        except RuntimeError:
            r.count("blocks_refused")
            continue
        except Exception as e:
            r.count("blocks_refused_other_exception")
            continue
        r.count("blocks_built")
        last = mod.MaskedLinear(in_degrees=block.degrees, out_features=F_, autoregressive_features=F_, random_mask=False, is_output=True)
        with torch.no_grad():
            for lin in [first] + list(block.linear_layers) + [last]:
                lin.weight.fill_(1.0)
                lin.bias.fill_(1.0)
        x = torch.rand(1, F_) + 0.5
        jac = torch.autograd.functional.jacobian(lambda z: last(block(first(z)))[0], x)[:, 0, :]
        r.ev()
        r.count("jacobian_entries", int(jac.numel()))
        leak = torch.triu(jac.abs()) > 0
        if leak.any():
            i_, j_ = [int(v) for v in leak.nonzero()[0]]
            r.viol("leak", "MADE output block depends on an input of equal or higher index", where="MaskedResidualBlock stacked on a "
                   "MaskedLinear with other degrees (%s copy)" % case["copy"], out=i_, inp=j_, first_degrees=first.degrees.tolist(),
                   block_degrees=block.degrees.tolist())
            break
        r.cell("block_guard", case["copy"], F_, H)
    r.count("taint_probes", 0)
    r.sample({"block_guard": {"copy": case["copy"], "F": F_, "H": H}})
    return r.done()


def build(a, seed):
    torch.manual_seed(seed)
    act = ACTS[["relu", "tanh", "elu", "sigmoid"][seed % 4]]
    kw = dict(features=a["F"], hidden_features=a["H"], context_features=(a["ctx"] or None), num_blocks=a["nb"],
              use_residual_blocks=a["btype"] == "residual", random_mask=a["btype"] == "ff_random", activation=act,
              dropout_probability=a["dp"], use_batch_norm=a["bn"])
    if a["copy"] == "transforms":
        from nflows.transforms import made
        return made.MADE(output_multiplier=a["mult"], **kw), a["mult"]
    if a["copy"] == "nde":
        from nflows.nn.nde import made
        return made.MADE(output_multiplier=a["mult"], **kw), a["mult"]
    from nflows.nn.nde import made
    return made.MixtureOfGaussiansMADE(num_mixture_components=a["mult"], **kw), 3 * a["mult"]


def positive_state(model):
    """state dict with weights := 1/fan_in (>0), biases := 0, batch-norm := identity-like; mask/degree buffers kept."""
    sd = {}
    for k, v in model.state_dict().items():
        leaf = k.split(".")[-1]
        if leaf in ("mask", "degrees", "num_batches_tracked"):
            sd[k] = v.clone()
        elif leaf == "running_mean":
            sd[k] = torch.zeros_like(v)
        elif leaf == "running_var":
            sd[k] = torch.ones_like(v)
        elif leaf == "weight":
            sd[k] = torch.ones_like(v) / (v.shape[-1] if v.dim() > 1 else 1.0)
        elif leaf == "bias":
            sd[k] = torch.zeros_like(v)
        else:
            sd[k] = v.clone()
    return sd


def reach_matrix(model, Fq, ctx):
    x = torch.full((1, Fq), 0.1)
    c = torch.full((1, ctx), 0.1) if ctx else None

    def f(z):
        return model(z, c).reshape(-1) if c is not None else model(z).reshape(-1)
    J = torch.autograd.functional.jacobian(f, x)          # [F*m, 1, F]
    return J.reshape(J.shape[0], Fq)


def run_case(case):
    if case["kind"] == "triangular":
        return run_triangular(case)
    if case["kind"] == "block_guard":
        return run_block_guard(case)
    r = R(case)
    for ai, a in enumerate(case["archs"]):
        seed = env.subseed(case["seed"], ai)
        try:
            model, m = build(a, seed)
        except Exception as e:
            r.count("not_constructible")
            if not isinstance(e, (ValueError, RuntimeError)):
                r.viol("construct", "MADE constructor raises unexpected exception", arch=a, exc=repr(e)[:200])
            continue
        Fq = a["F"]
        r.ev()
        r.count("taint_architectures")
        model.eval()
        try:
            with torch.no_grad():
                xw = torch.randn(3, Fq)
                cw = torch.randn(3, a["ctx"]) if a["ctx"] else None
                model(xw, cw) if cw is not None else model(xw)            # history: a call with the fresh weights
            model.load_state_dict(positive_state(model))                # ... then the weights change
            phases = []
            phases.append(("after_load", reach_matrix(model, Fq, a["ctx"])))
            model.train()
            model.eval()
            phases.append(("after_train_eval_toggle", reach_matrix(model, Fq, a["ctx"])))
            if a["btype"] == "ff_random":
                # a checkpoint restored into a freshly built instance (which drew its own random degrees): every mask that
                # depends on the random draw has to come from the checkpoint
                other, _ = build(a, seed + 7919)
                other.eval()
                other.load_state_dict(positive_state(model))
                phases.append(("restored_into_fresh_instance", reach_matrix(other, Fq, a["ctx"])))
                r.count("restored_instances")
        except Exception as e:
            r.viol("forward_raises", "MADE forward raises", arch=a, exc=repr(e)[:300])
            continue
        blk = torch.arange(Fq * m) // m          # output unit k belongs to feature blk[k] (feature-major)
        allowed = blk[:, None] > torch.arange(Fq)[None, :]
        for phase, J in phases:
            if tuple(J.shape) != (Fq * m, Fq):
                r.viol("shape", "MADE output width != features*multiplier", arch=a, got=list(J.shape))
                break
            if (J < 0).any() or not torch.isfinite(J).all():
                r.inconc("taint signal not sign-definite (oracle precondition broken) for %s" % a)
                break
            leak = (J > 0) & ~allowed
            if leak.any():
                k, j = [int(v) for v in leak.nonzero()[0]]
                r.viol("leak", "MADE output block depends on an input of equal or higher index", arch=a, phase=phase,
                       output_unit=k, output_feature=int(blk[k]), input=j, multiplier=m, copy=a["copy"],
                       reach_row=(J[k] > 0).int().tolist())
                break
            if Fq >= 2 and ((J > 0) & allowed).any():
                r.cell(a["copy"], Fq, a["H"], a["nb"], a["btype"], a["ctx"], a["mult"], a["bn"], a["dp"])
            # tightness (guards the oracle): sequential masks with enough hidden units reach every allowed input
            if a["btype"] != "ff_random" and a["H"] >= max(1, Fq - 1):
                if not bool(((J > 0) | ~allowed).all()):
                    r.count("sequential_not_fully_connected")
        # (b) semantic spot check with random weights
        try:
            model2, m2 = build(a, seed + 1)
            with torch.no_grad():
                for p in model2.parameters():
                    p.copy_(torch.randn(p.shape))
            semantic(r, model2, a, m2, seed)
        except Exception as e:
            r.viol("semantic_raises", "MADE forward raises in semantic check", arch=a, exc=repr(e)[:300])
    if case["archs"]:
        a = case["archs"][0]
        r.sample({"arch": a, "note": "reachability by positive-weight Jacobian; block i must not see inputs >= i"})
    return r.done()


def semantic(r, model, a, m, seed):
    Fq = a["F"]
    g = torch.Generator().manual_seed(seed)
    n = 5
    x = torch.randn(n, Fq, generator=g)
    c = torch.randn(n, a["ctx"], generator=g) if a["ctx"] else None
    for mode in ("eval", "train"):
        if mode == "train" and not (a["bn"] or a["dp"]):
            continue
        model.train(mode == "train")

        def run(z):
            torch.manual_seed(seed)      # same dropout masks
            with torch.no_grad():
                return (model(z, c) if c is not None else model(z)).reshape(n, Fq, m)
        base = run(x)
        if mode == "train" and a["bn"]:
            # batch statistics couple the rows but never the features; keep the check row-wise all the same
            pass
        for i in range(Fq):
            z = x.clone()
            z[:, i:] = torch.randn(n, Fq - i, generator=g) * (1e6 if i % 2 else 3.0)
            out = run(z)
            r.ev()
            r.count("semantic_checks")
            if not torch.equal(out[:, i, :], base[:, i, :]):
                r.viol("semantic_leak", "MADE block i changes when inputs >= i change", arch=a, mode=mode, feature=i,
                       max_diff=float((out[:, i, :] - base[:, i, :]).abs().max()), copy=a["copy"])
                return


def run_triangular(case):
    r = R(case)
    rng = np.random.default_rng(case["seed"])
    fams = ["ar_affine", "ar_linear", "ar_quadratic", "ar_cubic", "ar_rq", "ar_umnn"]
    for k in range(case["n"]):
        fam = fams[k % len(fams)]
        cfg = zoo.FAM[fam].sample_cfg(rng, "quick")
        cfg["shape"] = [int(rng.integers(2, 5))]
        if cfg.get("residual"):
            cfg["hidden"] = max(cfg["hidden"], cfg["shape"][0])
        me = zoo.meta(cfg)
        model = zoo.make(cfg, "randn1", case["seed"] + k)
        x = zoo.sample_inputs(me, 2, case["seed"] + k, structured=False)
        c = zoo.sample_context(me, 2, case["seed"] + k + 1)
        for i in range(2):
            ci = c[i:i + 1] if c is not None else None
            for direction in ("forward", "inverse"):
                if fam == "ar_umnn" and direction == "inverse":
                    continue     # bisection inverse: not differentiable, autograd sees a constant
                fn = model.forward if direction == "forward" else model.inverse
                try:
                    J = torch.autograd.functional.jacobian(lambda z: fn(z[None], ci)[0][0], x[i])
                except Exception as e:
                    r.viol("raises", "%s %s raises" % (fam, direction), exc=repr(e)[:200], cfg=cfg)
                    continue
                r.ev()
                r.count("triangular_jacobians")
                upper = torch.triu(J, diagonal=1)
                if (upper != 0).any():
                    r.viol("not_triangular", "masked autoregressive transform Jacobian has a non-zero upper triangle",
                           family=fam, direction=direction, cfg=cfg, max_upper=float(upper.abs().max()))
                if not (torch.diagonal(J) > 0).all():
                    r.viol("diag", "masked autoregressive transform is not elementwise increasing", family=fam,
                           direction=direction, cfg=cfg)
                if (torch.tril(J, diagonal=-1) != 0).any():
                    r.cell("triangular", fam, direction, cfg["shape"][0], cfg["residual"], cfg["random_mask"])
    r.sample({"families": fams, "note": "strictly upper triangle of d out / d in must be exactly zero"})
    return r.done()
