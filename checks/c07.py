"""C07 - coupling layers leave identity features untouched and condition only on them.

Monitors (all on the real forward / inverse):
 (a) identity features (mask <= 0) bit-for-bit unchanged (torch.equal), both directions, 2-D and 4-D; with an
     unconditional transform the identity part must equal that transform applied alone;
 (b) metamorphic: perturbing ONE element of a transformed feature leaves every other output element bit-identical
     and moves its own output monotonically; perturbing an identity feature leaves the other identity outputs
     bit-identical;
 (c) Jacobian sparsity / sign pattern from autograd on single items.
Masks are enumerated exhaustively (every non-trivial subset for 2..5 features) with numeric values drawn from
{-2,-1,0} for identity and {0.5,1,3} for transformed entries (sign semantics > 0 / <= 0)."""
import itertools

import numpy as np
import torch

from vf import env, zoo
from vf.result import R
from vf.monitors import writewatch as ww

RULE = ("case = (coupling class, mask pattern [exhaustive over non-trivial subsets of 2..5 features] with numeric values, "
        "2-D / image, context, tails/unconditional flags, parameter policy); evaluations = bitwise comparisons performed; "
        "a cell (class, #features, mask pattern, image?, ctx?, direction) is non-trivial when at least one transformed output "
        "differs from its input (the layer is not the identity) and a perturbation of a transformed input moved its own output")
ASSUMPTIONS = ["expected transformed set = {i : mask[i] > 0} computed by the harness from the constructor argument",
               "bitwise equality is meaningful because the same process evaluates both sides single-threaded"]
REQUIRED_COUNTS = ["identity_bitwise_checks", "perturbation_checks", "jacobian_pattern_checks", "layout_checks", "mask_alias_checks"]
BUDGET = {"case_timeout": {"quick": 300, "thorough": 1800}}

CLASSES = ["coupling_affine", "coupling_additive", "coupling_linear", "coupling_quadratic", "coupling_cubic",
           "coupling_rq", "coupling_umnn"]


def masks(D, rng, nvals):
    out = []
    for bits in itertools.product([0, 1], repeat=D):
        if 0 < sum(bits) < D:
            for _ in range(nvals):
                out.append([float(rng.choice([0.5, 1.0, 3.0])) if b else float(rng.choice([-2.0, -1.0, 0.0])) for b in bits])
    return out


def gen_cases(tier, seed):
    rng = np.random.default_rng(seed + 7)
    cases = []
    nvals = 1 if tier == "quick" else 30
    for fam in CLASSES:
        f = zoo.FAM[fam]
        for D in (2, 3, 4, 5):
            for mi, mask in enumerate(masks(D, rng, nvals)):
                for image in (False, True):
                    if tier == "quick" and D == 5 and image and mi % 3:
                        continue
                    cfg = f.sample_cfg(rng, tier)
                    cfg["mask"] = mask
                    cfg["shape"] = [D] + ([int(rng.integers(1, 4)), int(rng.integers(1, 4))] if image else [])
                    cfg["ctx"] = int(rng.choice([0, 2]))
                    if "bins" in cfg and cfg.get("tails"):
                        cfg["bins"] = max(cfg["bins"], f.minbins_tails)
                    pol = ["fresh", "randn1", "randn1", "zero", "randn3"][(mi + D) % 5]
                    if fam == "coupling_umnn" and pol in ("randn3",):
                        pol = "randn1"
                    cases.append({"cfg": cfg, "policy": pol, "seed": env.subseed(seed, "c07", fam, D, mi, image),
                                  "world": "f64", "cost": 6 if fam == "coupling_umnn" else (2 if image else 1)})
    # documented floors: the affine coupling's scale is sigmoid(.) + 1e-3 / softplus(.) + 1e-3 - however negative the
    # conditioner's output, a transformed feature keeps a derivative >= 1e-3 in its own input and stays invertible
    for i in range(6 if tier == "quick" else 60):
        cfg = zoo.FAM["coupling_affine"].sample_cfg(rng, tier)
        cfg["ctx"] = 0
        cases.append({"cfg": cfg, "policy": "fresh", "huge": [-150.0, -40.0, -1000.0][i % 3], "seed": env.subseed(seed, "c07h", i),
                      "world": "f64" if i % 2 else "f32", "cost": 1})
    # the unconditional transform requested for the identity features is the library's own Piecewise*CDF with the layer's bins,
    # tails and tail bound: compared with that class built by hand (same parameter values)
    k = 0
    for fam in ("coupling_linear", "coupling_quadratic", "coupling_cubic", "coupling_rq"):
        for Bt in (0.5, 3.0, 1.0):
            for image in (False, True):
                if tier == "quick" and (k % 3 == 2):
                    k += 1
                    continue
                cfg = zoo.FAM[fam].sample_cfg(rng, tier)
                cfg.update({"mask": [1.0, 0.0, -1.0, 2.0], "shape": [4] + ([2, 2] if image else []), "ctx": 0, "uncond": True,
                            "tails": "linear", "B": Bt, "bins": max(cfg["bins"], zoo.FAM[fam].minbins_tails, 3)})
                cases.append({"cfg": cfg, "policy": "randn1", "uncond_ref": True, "seed": env.subseed(seed, "c07u", fam, Bt, image),
                              "world": "f64", "cost": 1})
                k += 1
    return cases


def run_uncond_ref(case):
    from nflows.transforms import nonlinearities as NL
    r = R(case)
    cfg = case["cfg"]
    fam = cfg["fam"]
    Bt = cfg["B"]
    try:
        model = zoo.make(cfg, "randn1", case["seed"])
    except Exception as e:
        r.ev()
        r.viol("construct", "%s constructor raises" % fam, exc=repr(e)[:200], cfg=cfg)
        return r.done()
    ut = getattr(model, "unconditional_transform", None)
    if ut is None:
        r.inconc("no unconditional transform on the layer")
        return r.done()
    image = len(cfg["shape"]) == 3
    I = [i for i, m_ in enumerate(cfg["mask"]) if not m_ > 0]
    cls = {"coupling_linear": NL.PiecewiseLinearCDF, "coupling_quadratic": NL.PiecewiseQuadraticCDF,
           "coupling_cubic": NL.PiecewiseCubicCDF, "coupling_rq": NL.PiecewiseRationalQuadraticCDF}[fam]
    kw = {}
    if fam != "coupling_linear":
        if cfg.get("minw"):
            kw["min_bin_width"] = cfg["minw"]
        if cfg.get("minh"):
            kw["min_bin_height"] = cfg["minh"]
    if fam == "coupling_rq" and cfg.get("minder"):
        kw["min_derivative"] = cfg["minder"]
    try:
        ref = cls(shape=[len(I)] + (cfg["shape"][1:] if image else []), num_bins=cfg["bins"], tails="linear", tail_bound=Bt, **kw)
        ref.load_state_dict(ut.state_dict())
        ref = ref.to(next(ut.parameters()).dtype).eval()
    except Exception as e:
        r.inconc("reference CDF could not be built: %r" % (e,))
        return r.done()
    g = torch.Generator().manual_seed(case["seed"] + 1)
    n = 7
    # identity features spread over [-1.6 max(B, 1), 1.6 max(B, 1)] (inside the bound, between the bound and one, beyond both),
    # transformed features inside the bound
    span = 1.6 * max(Bt, 1.0)
    x = (torch.rand((n,) + tuple(cfg["shape"]), generator=g, dtype=torch.float64) * 2 - 1).to(torch.get_default_dtype())
    xi = x[:, I] * span
    x = x * (0.9 * Bt)
    x[:, I] = xi
    for direction in ("forward", "inverse"):
        try:
            with torch.no_grad():
                out, lad = (model.forward if direction == "forward" else model.inverse)(x, None)
                want, wlad = (ref.forward if direction == "forward" else ref.inverse)(x[:, I], None)
        except Exception as e:
            r.count("uncond_ref_call_raised")
            r.sample({"subject": fam, "error": repr(e)[:200]})
            continue
        r.ev(n)
        r.count("uncond_reference_rows", n)
        err = float((out[:, I] - want).abs().max())
        r.worst("uncond_ref_err/1e-12", err / 1e-12)
        if not err <= 1e-12 * (1 + span):
            r.viol("uncond_transform", "%s: identity features are not transformed by the Piecewise CDF with the layer's bins, tails and tail bound"
                   % fam, direction=direction, max_diff=err, tail_bound=Bt, cfg=cfg)
            continue
        outside = xi.abs() > Bt
        if outside.any() and not torch.equal(out[:, I][outside], xi[outside]):
            r.viol("uncond_transform", "%s: the unconditional transform is not the identity outside the tail bound" % fam,
                   direction=direction, tail_bound=Bt, cfg=cfg)
            continue
        r.cell(fam, "uncond_ref", direction, Bt, image)
    r.sample({"subject": fam, "uncond_ref": True, "tail_bound": Bt})
    return r.done()


def run_huge(case):
    r = R(case)
    cfg = case["cfg"]
    model = zoo.make(cfg, "fresh", case["seed"])
    with torch.no_grad():
        for name, m in model.named_modules():
            if name.split(".")[-1] in ("final_layer", "l2") and getattr(m, "bias", None) is not None:
                m.bias.fill_(case["huge"])
    me = zoo.meta(cfg)
    x = zoo.sample_inputs(me, 4, case["seed"] + 1, structured=False)
    T = [i for i, v in enumerate(cfg["mask"]) if v > 0]
    det = dict(cfg=cfg, conditioner_bias=case["huge"], dtype=str(x.dtype))
    r.ev()
    r.count("floor_checks")
    try:
        with torch.no_grad():
            y, lad = model(x, None)
            xi, lad_i = model.inverse(y, None)
    except Exception as e:
        r.viol("forward_raises", "coupling_affine raises with a strongly negative conditioner output", exc=repr(e)[:200], **det)
        return r.done()
    if not (torch.isfinite(y).all() and torch.isfinite(lad).all() and torch.isfinite(xi).all() and torch.isfinite(lad_i).all()):
        r.viol("floor", "coupling_affine returns non-finite numbers when its conditioner output is strongly negative "
               "(the scale floor of 1e-3 is gone)", logabsdet=lad.tolist()[:3], **det)
        return r.done()
    n_t = len(T) * int(np.prod(cfg["shape"][1:])) if len(cfg["shape"]) > 1 else len(T)
    per_elem = float(lad.min()) / max(n_t, 1)
    r.worst("floor_logdet_per_element", -per_elem)
    eps = 1e-12 if x.dtype == torch.float64 else 1e-5
    if per_elem < np.log(1e-3) - 1e-3:
        r.viol("floor", "coupling_affine transformed features have a derivative below the documented scale floor of 1e-3",
               logabsdet_per_transformed_element=per_elem, **det)
    elif float((xi - x).abs().max()) > 1e4 * eps * (1 + float(x.abs().max())):
        r.viol("floor", "coupling_affine is not invertible at its scale floor", err=float((xi - x).abs().max()), **det)
    else:
        r.cell("coupling_affine", "floor", case["huge"], str(x.dtype))
    r.sample({"class": "coupling_affine", "huge": case["huge"], "logabsdet_per_element": per_elem})
    return r.done()


def _call(r, fn, z, c, what, fam, cfg):
    try:
        with torch.no_grad():
            return fn(z, c)
    except Exception as e:
        r.viol(what + "_raises", "%s %s raises on in-domain input" % (fam, what), exc=repr(e)[:200], cfg=cfg,
               uncond=bool(cfg.get("uncond")))
        return None


def run_case(case):
    if case.get("huge") is not None:
        return run_huge(case)
    if case.get("uncond_ref"):
        return run_uncond_ref(case)
    r = R(case)
    cfg, pol = case["cfg"], case["policy"]
    fam = cfg["fam"]
    me = zoo.meta(cfg)
    mask = cfg["mask"]
    D = len(mask)
    T = [i for i in range(D) if mask[i] > 0]
    I = [i for i in range(D) if not mask[i] > 0]
    try:
        model = zoo.make(cfg, pol, case["seed"])
    except Exception as e:
        r.ev()
        r.viol("construct", "%s constructor raises" % fam, exc=repr(e)[:200], cfg=cfg)
        return r.done()
    image = len(cfg["shape"]) == 3
    B = 3
    x = zoo.sample_inputs(me, B, case["seed"] + 1, structured="many")
    ctx = zoo.sample_context(me, B, case["seed"] + 2)
    uncond = bool(cfg.get("uncond"))
    if I and not uncond:
        # bit patterns that arithmetic "copies" do not preserve: -0.0 (x + 0.0, index_add_ onto zeros), a denormal
        # (flushed by some kernels); row 1 only - row 0 carries the perturbation experiments
        tiny = 5e-324 if x.dtype == torch.float64 else 1e-45
        x[(1, I[0]) + (0,) * (x.dim() - 2)] = -0.0
        x[(2, I[-1]) + (0,) * (x.dim() - 2)] = tiny
    g = torch.Generator().manual_seed(case["seed"] + 3)
    patt = "".join("T" if i in T else "I" for i in range(D))
    for direction in ("forward", "inverse"):
        fn = model.forward if direction == "forward" else model.inverse
        if direction == "inverse":
            res = _call(r, model.forward, x, ctx, "forward", fam, cfg)
            if res is None:
                break
            z = res[0].detach()
            if me["dom_out"][0] == "box":
                z = z.clamp(me["dom_out"][1], me["dom_out"][2])
        else:
            z = x
        res = _call(r, fn, z, ctx, direction, fam, cfg)
        if res is None:
            continue
        out, lad = res
        # ---- (a) identity features
        r.ev()
        r.count("identity_bitwise_checks")
        if not uncond:
            if not ww.same_bits(out[:, I].detach(), z[:, I]):
                bad = [i for i in I if not ww.same_bits(out[:, i].detach(), z[:, i])]
                r.viol("identity_changed", "%s identity features are not returned bit-for-bit" % fam, direction=direction,
                       mask=mask, features_changed=bad, max_diff=float((out[:, I] - z[:, I]).abs().max()), cfg=cfg)
        else:
            ut = model.unconditional_transform
            ufn = ut.forward if direction == "forward" else ut.inverse
            with torch.no_grad():
                ref, _ = ufn(z[:, I], ctx)
            if not torch.equal(out[:, I], ref):
                r.viol("identity_uncond", "%s identity part != unconditional transform applied alone" % fam,
                       direction=direction, mask=mask, max_diff=float((out[:, I] - ref).abs().max()), cfg=cfg)
        moved = bool((out[:, T] != z[:, T]).any())
        # ---- (a') the same values in other memory layouts (views whose trailing axes cannot be merged, channels-last):
        #      identity features still bit-for-bit, everything else as for the contiguous tensor
        lays = []
        if z.dim() == 4:
            lays.append(("transposed_hw_view", z.transpose(2, 3).contiguous().transpose(2, 3)))
            lays.append(("channels_last", z.contiguous(memory_format=torch.channels_last)))
            big = torch.full((z.shape[0], z.shape[1] + 2, z.shape[2] + 1, z.shape[3] + 1), 7.0, dtype=z.dtype)
            big[:, 1:-1, 1:, :-1] = z
            lays.append(("slice_of_larger", big[:, 1:-1, 1:, :-1]))
        else:
            lays.append(("transposed_view", z.t().contiguous().t()))
            big = torch.full((z.shape[0] + 1, 2 * z.shape[1]), 7.0, dtype=z.dtype)
            big[1:, ::2] = z
            lays.append(("strided_slice", big[1:, ::2]))
        for lname, zl in lays:
            resl = _call(r, fn, zl, ctx, direction, fam, cfg)
            if resl is None:
                continue
            r.ev()
            r.count("layout_checks")
            outl = resl[0].detach()
            if outl.shape != out.shape:
                r.viol("layout_dependence", "%s output shape depends on the memory layout of the inputs" % fam, layout=lname,
                       direction=direction, mask=mask, cfg=cfg)
                continue
            if not uncond and not ww.same_bits(outl[:, I], z[:, I]):
                r.viol("identity_changed", "%s identity features are not returned bit-for-bit" % fam, direction=direction,
                       mask=mask, layout=lname, max_diff=float((outl[:, I] - z[:, I]).abs().max()), cfg=cfg)
            elif not bool(((outl - out).abs() <= 1e-12 * (1 + out.abs())).all()) or not bool(
                    ((resl[1] - lad).abs() <= 1e-11 * (1 + lad.abs())).all()):
                r.viol("layout_dependence", "%s results depend on the memory layout of the inputs" % fam, layout=lname,
                       direction=direction, mask=mask, max_diff=float((outl - out).abs().max()), cfg=cfg)
        # ---- (a2) broadcast inputs (stride 0 along the batch or the feature axis, as `row.expand(B, D)` gives): an output buffer laid
        #      out "like the input" would overlap itself.  Compared with the same values stored densely.
        for ename, ze in (("expanded_rows", z[:1].expand(*z.shape)), ("expanded_features", z[:, :1].expand(*z.shape))):
            if direction != "forward" and me["dom_in"] != me["dom_out"]:
                continue
            rese = _call(r, fn, ze, ctx, direction, fam, cfg)
            resd = _call(r, fn, ze.contiguous(), ctx, direction, fam, cfg)
            if rese is None or resd is None:
                continue
            r.ev()
            r.count("layout_checks")
            oe, od = rese[0].detach(), resd[0].detach()
            if oe.shape != od.shape or not bool(((oe - od).abs() <= 1e-12 * (1 + od.abs()))[torch.isfinite(od)].all()):
                r.viol("layout_dependence", "%s results depend on the memory layout of the inputs" % fam, layout=ename,
                       direction=direction, mask=mask, cfg=cfg)
            elif not uncond and not ww.same_bits(oe[:, I], ze[:, I].contiguous()):
                r.viol("identity_changed", "%s identity features are not returned bit-for-bit" % fam, direction=direction,
                       mask=mask, layout=ename, cfg=cfg)
        # ---- (a3) an identity feature holding +-inf (a float value like any other for "returned bit-for-bit"; what the conditioner
        #      makes of it is its business): forward direction, the identity features of that row come back as they went in
        if direction == "forward" and not uncond and I and z.is_floating_point():
            zi = z.clone()
            zi[-1, I[0]] = float("inf")
            if len(I) > 1:
                zi[-1, I[-1]] = float("-inf")
            try:
                with torch.no_grad():
                    oi = fn(zi, ctx)[0]
                r.ev()
                r.count("identity_bitwise_checks")
                if oi.shape != zi.shape or not ww.same_bits(oi[:, I], zi[:, I]):
                    r.viol("identity_changed", "%s identity features are not returned bit-for-bit" % fam, direction=direction, mask=mask,
                           values="+-inf", cfg=cfg)
            except Exception:
                r.count("nonfinite_identity_call_raised")
        # ---- (b) perturb one element of a transformed feature
        own_moved = False
        for j in T:
            zz = z.clone()
            pos = (0, j) + tuple(int(torch.randint(s, (1,), generator=g)) for s in z.shape[2:])
            old = float(z[pos])
            new = _nudge(old, me, direction, g)
            if new is None:
                continue
            zz[pos] = new
            res2 = _call(r, fn, zz, ctx, direction, fam, cfg)
            if res2 is None:
                continue
            out2 = res2[0]
            r.ev()
            r.count("perturbation_checks")
            # other outputs: equal up to vectorisation noise (a perturbation that moves an element across the tail
            # bound changes the length of the compacted 'inside' tensor, and torch's SIMD kernels may round the same
            # element differently by an ulp depending on its lane); identity features stay strictly bitwise (a copy)
            diff = (out2 - out).abs() > 1e-13 * (1 + out.abs())
            idcols = torch.zeros_like(diff)
            idcols[:, I] = True
            if not uncond:
                diff = diff | (idcols & (out2 != out))
            own = bool(out2[pos] != out[pos])
            diff[pos] = False
            if diff.any():
                k = [int(v) for v in diff.nonzero()[0]]
                r.viol("cross_talk", "%s perturbing a transformed feature changes another output" % fam,
                       direction=direction, mask=mask, perturbed=list(pos), changed=k,
                       changed_is_transformed=(k[1] in T), cfg=cfg,
                       max_diff=float((out2 - out)[diff].abs().max()))
            if own:
                own_moved = True
                if (float(out2[pos]) - float(out[pos])) * (new - old) < 0:
                    r.viol("not_monotone", "%s transformed feature is not increasing in its own input" % fam,
                           direction=direction, mask=mask, cfg=cfg, x_old=old, x_new=new, y_old=float(out[pos]),
                           y_new=float(out2[pos]))
        # ---- perturb an identity feature: the other identity outputs stay put
        if not uncond and I:
            j = I[int(torch.randint(len(I), (1,), generator=g))]
            zz = z.clone()
            pos = (0, j) + tuple(int(torch.randint(s, (1,), generator=g)) for s in z.shape[2:])
            new = _nudge(float(z[pos]), me, direction, g)
            if new is not None:
                zz[pos] = new
                res2 = _call(r, fn, zz, ctx, direction, fam, cfg)
                if res2 is not None:
                    r.ev()
                    r.count("perturbation_checks")
                    o2 = res2[0]
                    idm = torch.zeros_like(o2, dtype=torch.bool)
                    idm[:, I] = True
                    idm[pos] = False
                    if (o2[idm] != out[idm]).any():  # identity outputs are copies: strictly bitwise
                        r.viol("identity_cross_talk", "%s perturbing an identity feature changes another identity output" % fam,
                               direction=direction, mask=mask, cfg=cfg)
                    if float(o2[pos]) != new:
                        r.viol("identity_changed", "%s identity features are not returned bit-for-bit" % fam,
                               direction=direction, mask=mask, cfg=cfg, features_changed=[j])
        if moved and own_moved:
            r.cell(fam, D, patt, "img" if image else "2d", "ctx" if ctx is not None else "noctx", direction,
                   "uncond" if uncond else "-")
    # ---- (a'') the mask handed over as a TENSOR that the caller goes on using (SimpleRealNVP flips its own mask in place between
    #      layers): the layer keeps the split it was constructed with
    try:
        mask_t = torch.tensor(mask)
        twin = zoo.make(dict(cfg, mask=mask_t), pol, case["seed"])
        with torch.no_grad():
            before = twin(x, ctx)
        mask_t.mul_(-1.0)
        mask_t.add_(0.25)
        with torch.no_grad():
            after = twin(x, ctx)
            ref = model(x, ctx)
        r.ev()
        r.count("mask_alias_checks")
        if not (ww.same_bits(before[0], after[0]) and ww.same_bits(before[1], after[1])):
            r.viol("mask_aliased", "%s changes its split when the caller modifies the mask tensor it was constructed from" % fam,
                   mask=mask, cfg=cfg, max_diff=float((before[0] - after[0]).abs().max()))
        elif not uncond and not ww.same_bits(after[0][:, I], x[:, I]):
            r.viol("identity_changed", "%s identity features are not returned bit-for-bit" % fam, direction="forward", mask=mask,
                   mask_as="tensor", cfg=cfg)
        elif not bool(((after[0] - ref[0]).abs() <= 1e-12 * (1 + ref[0].abs())).all()):
            r.viol("mask_aliased", "%s built from a mask tensor differs from the one built from the same values as a list" % fam,
                   mask=mask, cfg=cfg, max_diff=float((after[0] - ref[0]).abs().max()))
    except Exception as e:
        r.viol("construct", "%s cannot be constructed from / used with a mask given as a tensor" % fam, exc=repr(e)[:200], cfg=cfg)
    # ---- (c) Jacobian pattern on one item (forward)
    if not uncond and fam != "coupling_umnn" or (fam == "coupling_umnn" and not uncond):
        try:
            ci = ctx[:1] if ctx is not None else None
            J = torch.autograd.functional.jacobian(lambda v: model(v[None], ci)[0][0], x[0])
            n = x[0].numel()
            J = J.reshape(n, n)
            idx = torch.arange(n).reshape(x[0].shape)
            tmask = torch.zeros(x[0].shape, dtype=torch.bool)
            tmask[T] = True
            tflat = tmask.reshape(-1)
            r.ev()
            r.count("jacobian_pattern_checks")
            eye = torch.eye(n)
            # identity rows are unit vectors
            if not torch.equal(J[~tflat], eye[~tflat]):
                r.viol("jac_identity_rows", "%s Jacobian rows of identity features are not unit vectors" % fam, mask=mask, cfg=cfg)
            # transformed x transformed block is diagonal with positive entries
            TT = J[tflat][:, tflat]
            off = TT - torch.diag(torch.diagonal(TT))
            if (off != 0).any():
                r.viol("jac_cross", "%s transformed outputs depend on other transformed inputs (Jacobian)" % fam,
                       mask=mask, cfg=cfg, max_off=float(off.abs().max()))
            dg = torch.diagonal(TT)
            edge = zoo.nudge_edges(x[0], me)
            # an output sitting exactly on an end-point of the output box went through the library's clamp, whose autograd
            # derivative at the bound is 0 in this torch (also when the map merely saturates into the end-point: derivative
            # 1e-7 at 1e-9 from the bound rounds to the bound itself) - such elements are not judged
            with torch.no_grad():
                y0 = model(x[0][None], ci)[0][0].reshape(-1)[tflat]
            on_edge = torch.zeros_like(dg, dtype=torch.bool)
            for v, _d in me.get("edges", []):
                on_edge |= (y0 == v)
            if not (dg[~on_edge] > 0).all() and torch.equal(edge, x[0]):
                r.viol("jac_diag", "%s transformed features are not strictly increasing (Jacobian diagonal <= 0)" % fam,
                       mask=mask, cfg=cfg, min_diag=float(dg.min()))
        except Exception as e:
            r.viol("jacobian_raises", "%s autograd Jacobian raises" % fam, exc=repr(e)[:200], cfg=cfg)
    r.sample({"class": fam, "mask": mask, "transformed": T, "identity": I, "shape": cfg["shape"], "policy": pol})
    return r.done()


def _nudge(v, me, direction, g):
    """another in-domain value for one element"""
    dom = me["dom_in"] if direction == "forward" else me["dom_out"]
    u = float(torch.rand(1, generator=g))
    if dom[0] == "box":
        lo, hi = dom[1], dom[2]
        new = lo + (hi - lo) * (0.05 + 0.9 * u)
    elif dom[0] == "Rb":
        new = (2 * u - 1) * min(dom[1], 3.0)
    else:
        new = v + (0.3 + u) * (1 if u > 0.5 else -1)
    if new == v:
        return None
    return new
