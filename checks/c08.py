"""C08 - composite / inverse / multiscale wrappers are exact function composition.

Monitors
 (a) hand-chained reference: the harness applies the parts itself, in the stated order (reversed, with .inverse,
     for the inverse), sums their log-abs-dets and compares with what the wrapper returns - for random nestings
     (programs) of CompositeTransform / InverseTransform over non-commuting library transforms, in the float64
     world and in the mixed world users hit (default float32, model.double(), float64 inputs);
 (b) multiscale routing with unambiguous values: inputs are distinct integers, stage i adds 10^(4+i) (exact in
     float64), so every output value reveals which input coordinate it is and which prefix of stages it went
     through; compared position by position with a pure-python model of the documented routing; exhaustive over
     shapes / split dimensions / stage counts up to a bound; inverse(forward(x)) == x exactly; log-det = sum over
     the stages each block traversed (checked with per-stage scales)."""
import itertools

import numpy as np
import torch

from vf import env, zoo
from vf.result import R

RULE = ("programs: random nestings (depth <= 3) of Composite/Inverse over R^D->R^D zoo transforms; multiscale: every "
        "(event shape with extents <= bound, split_dim, number of stages) the constructor accepts; one evaluation = one "
        "wrapper call compared with the hand-chained / routed reference; a cell is a distinct (nesting skeleton) resp. "
        "(shape, split_dim, stages) and is non-trivial when the parts do not commute resp. when >= 2 stages route "
        "coordinates to different output blocks")
ASSUMPTIONS = ["parts themselves are judged by C01/C02; here only the wrappers' bookkeeping is under test",
               "documented routing: after every non-final stage torch.chunk(2, split_dim), first half emitted flattened"]
REQUIRED_COUNTS = ["composite_calls", "multiscale_configs", "inverse_wrapper_calls"]
BUDGET = {"case_timeout": {"quick": 300, "thorough": 1800}}


# ----------------------------------------------------------------------------- programs
def sample_program(rng, D, ctx, depth):
    """nested structure: ("leaf", cfg) | ("comp", [nodes]) | ("inv", node)"""
    k = rng.random()
    if depth == 0 or k < 0.35:
        fams = ["pointwise_affine", "permutation", "leakyrelu", "lu", "logtanh", "coupling_affine", "ar_affine",
                "cdf_rq", "actnorm", "qr", "coupling_rq", "svd", "naive_linear", "batchnorm"]
        return ("leaf", zoo.sample_R_cfg(rng, "quick", D, ctx, fams=fams))
    if k < 0.8:
        n = int(rng.integers(1, 5))
        return ("comp", [sample_program(rng, D, ctx, depth - 1) for _ in range(n)])
    return ("inv", sample_program(rng, D, ctx, depth - 1))


def build_program(node, seed):
    from nflows import transforms as T
    kind = node[0]
    if kind == "leaf":
        cfg = node[1]
        m = zoo.make(cfg, "randn1" if cfg["fam"] not in ("pointwise_affine", "permutation") else "fresh",
                     env.subseed(seed, cfg))
        return m
    if kind == "comp":
        return T.CompositeTransform([build_program(c, seed + i + 1) for i, c in enumerate(node[1])])
    return T.InverseTransform(build_program(node[1], seed + 17))


def build_program_tree(node, seed):
    """The same construction, returning next to the library object the structure AS WRITTEN: ("leaf", module) / ("comp", [trees]) /
    ("inv", tree).  The hand-chained reference walks this tree - not the children the library object happens to hold, which a
    constructor that flattens, copies or re-wraps its parts may have rearranged."""
    from nflows import transforms as T
    kind = node[0]
    if kind == "leaf":
        cfg = node[1]
        m = zoo.make(cfg, "randn1" if cfg["fam"] not in ("pointwise_affine", "permutation") else "fresh", env.subseed(seed, cfg))
        return m, ("leaf", m)
    if kind == "comp":
        built = [build_program_tree(c, seed + i + 1) for i, c in enumerate(node[1])]
        return T.CompositeTransform([b[0] for b in built]), ("comp", [b[1] for b in built])
    inner, tree = build_program_tree(node[1], seed + 17)
    return T.InverseTransform(inner), ("inv", tree)


def reference_tree(tree, z, ctx, inverse):
    if tree[0] == "leaf":
        return (tree[1].inverse if inverse else tree[1].forward)(z, ctx)
    if tree[0] == "comp":
        tot = z.new_zeros(z.shape[0])
        for t in (reversed(tree[1]) if inverse else tree[1]):
            z, l = reference_tree(t, z, ctx, inverse)
            tot = tot + l
        return z, tot
    return reference_tree(tree[1], z, ctx, not inverse)


def tree_leaves(tree):
    if tree[0] == "leaf":
        return [tree[1]]
    if tree[0] == "comp":
        return [m for t in tree[1] for m in tree_leaves(t)]
    return tree_leaves(tree[1])


def skeleton(node):
    if node[0] == "leaf":
        return node[1]["fam"][:4]
    if node[0] == "comp":
        return "C(" + ",".join(skeleton(c) for c in node[1]) + ")"
    return "I(" + skeleton(node[1]) + ")"


def reference(module, z, ctx, inverse):
    """Hand-chained evaluation that only ever calls LEAF library transforms."""
    from nflows import transforms as T
    if isinstance(module, T.CompositeTransform):
        parts = list(module._transforms)
        tot = z.new_zeros(z.shape[0])
        for p in (reversed(parts) if inverse else parts):
            z, l = reference(p, z, ctx, inverse)
            tot = tot + l
        return z, tot
    if isinstance(module, T.InverseTransform):
        return reference(module._transform, z, ctx, not inverse)
    return (module.inverse if inverse else module.forward)(z, ctx)


def gen_cases(tier, seed):
    rng = np.random.default_rng(seed + 11)
    cases = []
    n = 600 if tier == "quick" else 40000
    for i in range(n):
        D = int(rng.integers(1, 5))
        ctx = int(rng.choice([0, 0, 2]))
        prog = sample_program(rng, D, ctx, 3)
        cases.append({"kind": "program", "prog": prog, "D": D, "ctx": ctx, "seed": env.subseed(seed, "c08p", i),
                      "world": "f64" if i % 4 else "f32", "mixed": i % 4 == 0, "cost": 2})
    # long flat composites (>= 11 direct parts: sub-module keys '10', '11', ... sort before '2' as strings), non-commuting parts
    for i in range(12 if tier == "quick" else 400):
        D = int(rng.integers(2, 5))
        nparts = int(rng.integers(11, 15))
        fams = ["pointwise_affine", "permutation", "leakyrelu", "lu", "qr", "naive_linear", "coupling_affine", "ar_affine"]
        prog = ("comp", [("leaf", zoo.sample_R_cfg(rng, "quick", D, 0, fams=fams)) for _ in range(nparts)])
        if i % 3 == 2:
            prog = ("inv", prog)
        cases.append({"kind": "program", "prog": prog, "D": D, "ctx": 0, "seed": env.subseed(seed, "c08long", i),
                      "world": "f64", "mixed": False, "cost": 3})
    # multiscale composites whose stages USE the context (masked autoregressive stages), and whose last stage is an
    # InverseTransform of an elementwise affine map (its log-abs-det is a stride-0 expanded view)
    for i in range(8 if tier == "quick" else 200):
        cases.append({"kind": "multiscale_ctx", "D": [4, 8, 8, 16][i % 4], "stages": [2, 2, 3, 3][i % 4], "last": ["ar", "inv_affine"][(i // 4) % 2],
                      "seed": env.subseed(seed, "c08mc", i), "world": "f64", "cost": 2})
    # CompositeCDFTransform(squash, cdf) is squash -> cdf -> squash^-1 of the OBJECTS it was given: chained by hand from the
    # caller's own handles after their values changed (a learned temperature after optimiser steps)
    for i in range(8 if tier == "quick" else 160):
        cases.append({"kind": "composite_cdf", "squash": ["sigmoid_learned", "sigmoid_learned", "tanh", "sigmoid_fixed"][i % 4],
                      "cdf": ["rq", "linear", "quadratic", "cubic"][(i // 4) % 4], "D": 1 + i % 3,
                      "seed": env.subseed(seed, "c08cdf", i), "world": "f64", "cost": 1})
    # multiscale grid
    shapes = [(c,) for c in range(2, 10)]
    shapes += [(a, b) for a in range(1, 6) for b in range(1, 6)]
    mx = 3 if tier == "quick" else 4
    shapes += [(c, h, w) for c in range(1, 7) for h in range(1, mx + 1) for w in range(1, mx + 1)]
    grid = []
    for shp in shapes:
        for sd in range(1, len(shp) + 1):
            for ns in range(1, 5):
                grid.append({"shape": list(shp), "split_dim": sd, "stages": ns})
    per = 40
    for i in range(0, len(grid), per):
        cases.append({"kind": "multiscale", "grid": grid[i:i + per], "seed": env.subseed(seed, "c08m", i),
                      "world": "f64", "cost": 2})
    return cases


def run_multiscale_ctx(case):
    """forward / inverse of a multiscale composite under a context against the stages routed by hand with that context"""
    from nflows import transforms as T
    r = R(case)
    D, ns, seed = case["D"], case["stages"], case["seed"]
    torch.manual_seed(seed)
    g = torch.Generator().manual_seed(seed)
    ms = T.MultiscaleCompositeTransform(num_transforms=ns, split_dim=1)
    stages, cur = [], (D,)
    for i in range(ns):
        width = cur[0]
        if i == ns - 1 and case["last"] == "inv_affine":
            t = T.InverseTransform(T.PointwiseAffineTransform(shift=0.3, scale=1.7))
        else:
            t = T.MaskedAffineAutoregressiveTransform(features=width, hidden_features=max(8, width), context_features=2, num_blocks=1)
            with torch.no_grad():
                for p_ in t.parameters():
                    p_.add_(0.2 * torch.randn(p_.shape, generator=g))
        stages.append(t)
        cur = ms.add_transform(t, cur)
    ms.eval()
    B = 3
    x = torch.randn(B, D, generator=g)
    ctx = torch.randn(B, 2, generator=g) * 2

    def ref_forward(x_, c_):
        outs, tot, h = [], x_.new_zeros(x_.shape[0]), x_
        for i, t in enumerate(stages):
            h, l = t(h, c_)
            tot = tot + l
            if i < ns - 1:
                a, h = torch.chunk(h, 2, dim=1)
                outs.append(a)
            else:
                outs.append(h)
        return torch.cat(outs, dim=1), tot
    def ref_inverse(y_, c_):
        # block sizes emitted by the forward routing
        sizes, w_ = [], D
        for i in range(ns):
            if i < ns - 1:
                sizes.append(w_ - w_ // 2 if False else (w_ + 1) // 2)
                w_ = w_ // 2
            else:
                sizes.append(w_)
        blocks = list(torch.split(y_, sizes, dim=1))
        h, tot = blocks[-1], y_.new_zeros(y_.shape[0])
        h, l = stages[-1].inverse(h, c_)
        tot = tot + l
        for i in range(ns - 2, -1, -1):
            h = torch.cat([blocks[i], h], dim=1)
            h, l = stages[i].inverse(h, c_)
            tot = tot + l
        return h, tot
    det = dict(D=D, stages=ns, last=case["last"])
    r.ev()
    r.count("multiscale_context_cases")
    try:
        with torch.no_grad():
            y_ref, l_ref = ref_forward(x, ctx)
            y, l = ms(x, ctx)
            y_none_ref = ref_forward(x, ctx.flip(0))[0]
    except Exception as e:
        r.viol("forward_raises", "multiscale forward with a context raises", exc=repr(e)[:200], **det)
        return r.done()
    if not torch.allclose(y, y_ref, rtol=1e-12, atol=1e-12) or not torch.allclose(l, l_ref, rtol=1e-12, atol=1e-12):
        r.viol("routing", "multiscale forward under a context != its stages applied by hand with that context",
               out_diff=float((y - y_ref).abs().max()), lad_diff=float((l - l_ref).abs().max()), **det)
    try:
        with torch.no_grad():
            xb, lb = ms.inverse(y_ref, ctx)
            xr, lr = ref_inverse(y_ref, ctx)
        if not torch.allclose(xb, xr, rtol=1e-12, atol=1e-12) or not torch.allclose(lb, lr, rtol=1e-12, atol=1e-12):
            r.viol("inverse", "multiscale inverse under a context != its stages' inverses applied by hand with that context",
                   x_diff=float((xb - xr).abs().max()), lad_diff=float((lb - lr).abs().max()), **det)
        with torch.no_grad():
            xb2, lb2 = ms.inverse(y_ref, ctx)        # and again on the same object
        if not (torch.equal(xb2, xb) and torch.equal(lb2, lb)):
            r.viol("repeat", "multiscale inverse gives a different result when called a second time on the same object", **det)
    except Exception as e:
        r.viol("inverse_raises", "multiscale inverse with a context raises on a legal nesting", exc=repr(e)[:200], **det)
    if not torch.allclose(y_none_ref, y_ref):
        r.cell("multiscale_ctx", D, ns, case["last"])
    r.sample({"multiscale_ctx": det})
    return r.done()


def run_composite_cdf(case):
    from nflows.transforms import nonlinearities as NL
    r = R(case)
    D, seed = case["D"], case["seed"]
    torch.manual_seed(seed)
    g = torch.Generator().manual_seed(seed)
    sq = case["squash"]
    if sq == "sigmoid_learned":
        squash = NL.Sigmoid(temperature=[1.0, 0.5, 2.0][seed % 3], learn_temperature=True)
    elif sq == "sigmoid_fixed":
        squash = NL.Sigmoid(temperature=[1.0, 0.5, 2.0][seed % 3])
    else:
        squash = NL.Tanh()
    lo, hi = (-1.0, 1.0) if sq == "tanh" else (0.0, 1.0)
    cls = {"rq": NL.PiecewiseRationalQuadraticCDF, "linear": NL.PiecewiseLinearCDF, "quadratic": NL.PiecewiseQuadraticCDF,
           "cubic": NL.PiecewiseCubicCDF}[case["cdf"]]
    label = "CompositeCDFTransform(%s, %s)" % (sq, case["cdf"])
    try:
        if sq == "tanh":
            # the piecewise CDFs live on [0, 1]: an affine map in between is part of the "cdf" handed over
            from nflows import transforms as T
            cdf = T.CompositeTransform([T.PointwiseAffineTransform(0.5, 0.5), cls([D], num_bins=4),
                                        T.InverseTransform(T.PointwiseAffineTransform(0.5, 0.5))])
        else:
            cdf = cls([D], num_bins=4)
        model = NL.CompositeCDFTransform(squash, cdf)
    except Exception as e:
        r.ev()
        r.viol("construct", "%s constructor raises" % label, exc=repr(e)[:200])
        return r.done()
    # values change after construction, through the caller's handles (what an optimiser step on model.parameters() does when the
    # composite really holds these objects)
    with torch.no_grad():
        for p_ in cdf.parameters():
            p_.add_(0.5 * torch.randn(p_.shape, generator=g).to(p_.dtype))
        for n_, p_ in squash.named_parameters():
            p_.mul_(1.7)
    model.eval()
    x = torch.randn(6, D, generator=g, dtype=torch.float64).to(torch.get_default_dtype()) * 1.5
    det = dict(subject=label, D=D)
    try:
        with torch.no_grad():
            y, l = model(x)
            a, la = squash(x)
            b, lb = cdf(a)
            c, lc = squash.inverse(b)
    except Exception as e:
        r.count("composite_cdf_call_raised")
        r.sample({"subject": label, "error": repr(e)[:200]})
        return r.done()
    r.ev(2)
    r.count("composite_cdf_comparisons", 2)
    fin = torch.isfinite(c).all(1) & torch.isfinite(y).all(1)
    err = float((y - c)[fin].abs().max()) if fin.any() else 0.0
    lerr = float((l - (la + lb + lc))[fin].abs().max()) if fin.any() else 0.0
    if err > 1e-9 or lerr > 1e-9:
        r.viol("order", "%s is not squash -> cdf -> squash^-1 of the objects it was given" % label, out_err=err, logabsdet_err=lerr, **det)
    else:
        # the inverse against the same chain run backwards by hand (squash, cdf^-1, squash^-1) - the same operations, so agreement is
        # to rounding; whether the round trip recovers x is C02's clause (near saturation of the squashing it legitimately does not)
        try:
            with torch.no_grad():
                yy = y[fin]
                xb, lbk = model.inverse(yy)
                a2, la2 = squash(yy)
                b2, lb2 = cdf.inverse(a2)
                c2, lc2 = squash.inverse(b2)
            r.ev()
            ok2 = torch.isfinite(c2).all(1) & torch.isfinite(xb).all(1)
            e2 = float((xb - c2)[ok2].abs().max()) if ok2.any() else 0.0
            l2 = float((lbk - (la2 + lb2 + lc2))[ok2].abs().max()) if ok2.any() else 0.0
            if e2 > 1e-9 or l2 > 1e-9:
                r.viol("inverse_order", "%s.inverse is not squash -> cdf^-1 -> squash^-1 of the objects it was given" % label, out_err=e2,
                       logabsdet_err=l2, **det)
        except Exception:
            r.count("composite_cdf_call_raised")
        r.cell("composite_cdf", sq, case["cdf"], D)
    r.sample({"subject": label, "out_err": err})
    return r.done()


def run_case(case):
    if case["kind"] == "composite_cdf":
        return run_composite_cdf(case)
    if case["kind"] == "multiscale":
        return run_multiscale(case)
    if case["kind"] == "multiscale_ctx":
        return run_multiscale_ctx(case)
    r = R(case)
    from nflows import transforms as T
    prog = case["prog"]
    D, nctx = case["D"], case["ctx"]
    try:
        model, tree = build_program_tree(prog, case["seed"])
    except Exception as e:
        r.inconc("program construction failed: %r" % (e,))
        return r.done()
    model.eval()
    # module-level operations on the outermost wrapper reach every transform it was built from (they are its sub-modules): mode
    # switches here, parameters / state dict below - a wrapped transform that is only referenced stays in training mode, keeps its
    # dtype and is missing from checkpoints
    leaves_ = tree_leaves(tree)
    r.count("wrapper_reach_checks")
    if any(m_.training for m_ in leaves_):
        r.viol("construct", "eval() on the outermost wrapper does not reach a transform it was built from", skeleton=skeleton(prog))
    own_ = {id(p_) for p_ in model.parameters()} | {id(b_) for b_ in model.buffers()}
    if any(id(t_) not in own_ for m_ in leaves_ for t_ in list(m_.parameters()) + list(m_.buffers())):
        r.viol("construct", "parameters / buffers of a wrapped transform are not among those of the outermost wrapper", skeleton=skeleton(prog))
    if isinstance(model, T.CompositeTransform) and len(model._transforms) >= 2:
        # the constructor documents "an iterable of Transform objects": a generator / iterator / map must give the same
        # composite as the list (a second pass over a one-shot iterable finds it empty)
        parts_ = list(model._transforms)
        for how, it in (("generator", (p_ for p_ in parts_)), ("iter", iter(parts_)), ("map", map(lambda p_: p_, parts_)),
                        ("tuple", tuple(parts_))):
            try:
                alt = T.CompositeTransform(it)
                r.count("composite_iterable_constructions")
                if len(alt._transforms) != len(parts_) or any(a is not b for a, b in zip(alt._transforms, parts_)):
                    r.viol("construct", "CompositeTransform built from an iterable does not hold the given parts in order",
                           iterable=how, got=len(alt._transforms), expected=len(parts_), skeleton=skeleton(prog))
                    break
            except Exception as e:
                r.viol("construct", "CompositeTransform rejects an iterable of transforms", iterable=how, exc=repr(e)[:200])
                break
    mixed = case.get("mixed")
    dt = torch.float64
    if mixed:
        try:
            model = model.double()
        except Exception as e:
            r.viol("double_raises", "model.double() raises", exc=repr(e)[:200])
            return r.done()
    g = torch.Generator().manual_seed(case["seed"])
    B = 4
    x = torch.randn(B, D, generator=g, dtype=dt) * 1.5
    ctx = torch.randn(B, nctx, generator=g, dtype=dt) if nctx else None
    sk = skeleton(prog)
    n_leaves = sk.count(",") + 1
    tol = 1e-12
    for direction in ("forward", "inverse"):
        inv = direction == "inverse"
        try:
            with torch.no_grad():
                ref_out, ref_lad = reference_tree(tree, x, ctx, inv)
        except Exception as e:
            # a part rejects the value (e.g. a float32-only part in the mixed world): the wrapper must then fail too,
            # it is not this check's business
            r.count("reference_chain_raised")
            continue
        try:
            with torch.no_grad():
                out, lad = (model.inverse if inv else model.forward)(x, ctx)
        except Exception as e:
            r.ev()
            r.viol("wrapper_raises", "wrapper raises although the hand-chained parts succeed", direction=direction,
                   skeleton=sk, exc=repr(e)[:200], mixed=bool(mixed))
            continue
        r.ev()
        r.count("composite_calls")
        if isinstance(model, T.InverseTransform):
            r.count("inverse_wrapper_calls")
        r.count("inverse_wrapper_calls", sk.count("I("))
        fin = torch.isfinite(ref_out)
        if not fin.all():
            r.count("nonfinite_reference_values")   # overflow of a part on this input; still must agree position-wise
        same = out.shape == ref_out.shape and torch.equal(torch.isnan(out), torch.isnan(ref_out)) and \
            torch.equal(torch.nan_to_num(out, nan=0.0), torch.nan_to_num(ref_out, nan=0.0))
        if not same:
            d = float((out - ref_out).abs().max()) if out.shape == ref_out.shape else None
            r.viol("outputs", "wrapper outputs != parts applied in the stated order", direction=direction, skeleton=sk,
                   max_diff=d, mixed=bool(mixed))
        if tuple(lad.shape) != (B,):
            r.viol("lad_shape", "wrapper logabsdet shape != (batch,)", got=list(lad.shape), skeleton=sk)
            continue
        if lad.dtype != ref_lad.dtype:
            r.viol("lad_dtype", "wrapper logabsdet dtype differs from the sum of its parts' logabsdets",
                   got=str(lad.dtype), parts_sum=str(ref_lad.dtype), skeleton=sk, mixed=bool(mixed), direction=direction)
        okm = torch.isfinite(ref_lad)
        if not torch.equal(torch.isfinite(lad), okm):
            r.viol("lad_sum", "wrapper logabsdet finite where the parts' sum is not (or vice versa)", skeleton=sk)
            continue
        if not okm.any():
            continue
        lad, ref_lad = lad[okm], ref_lad[okm]
        err = float((lad.double() - ref_lad.double()).abs().max())
        scale = 1 + float(ref_lad.abs().max())
        t = tol if lad.dtype == torch.float64 and ref_lad.dtype == torch.float64 else 1e-5
        r.worst("lad_sum_err/tol", err / (t * scale))
        if err > t * scale:
            r.viol("lad_sum", "wrapper logabsdet != sum of the parts' logabsdets", direction=direction, skeleton=sk,
                   err=err, mixed=bool(mixed))
        if n_leaves >= 2:
            r.cell("program", sk, direction, "mixed" if mixed else "f64")
    r.sample({"skeleton": sk, "D": D, "ctx": nctx, "mixed": bool(mixed)})
    return r.done()


# ----------------------------------------------------------------------------- multiscale routing
def route_reference(shape, split_dim, stages):
    """Pure-python model of the documented routing.  Returns (order, traversed): for every output position the
    input coordinate id found there and the number of stages it went through."""
    ids = np.arange(int(np.prod(shape))).reshape(shape)
    order, trav = [], []
    hidden = ids
    ax = split_dim - 1
    for i in range(stages - 1):
        n = hidden.shape[ax]
        k = (n + 1) // 2
        first = np.take(hidden, range(0, k), axis=ax)
        second = np.take(hidden, range(k, n), axis=ax)
        order.extend(first.reshape(-1).tolist())
        trav.extend([i + 1] * first.size)
        hidden = second
    order.extend(hidden.reshape(-1).tolist())
    trav.extend([stages] * hidden.size)
    return order, trav


def build_multiscale(shape, split_dim, stages, mode):
    """mode 'tag': stage i adds 10^(4+i); mode 'scale': stage i multiplies by (i+2)."""
    from nflows import transforms as T
    ms = T.MultiscaleCompositeTransform(num_transforms=stages, split_dim=split_dim)
    cur = tuple(shape)
    for i in range(stages):
        if mode == "tag":
            t = T.PointwiseAffineTransform(shift=float(10 ** (4 + i)), scale=1.0)
        else:
            t = T.PointwiseAffineTransform(shift=0.0, scale=float(i + 2))
        cur = ms.add_transform(t, cur)
    return ms


def run_multiscale(case):
    r = R(case)
    for cfg in case["grid"]:
        shape, sd, ns = tuple(cfg["shape"]), cfg["split_dim"], cfg["stages"]
        # does the documented protocol accept it?  every non-final stage needs size >= 2 on the split axis
        size = shape[sd - 1]
        feasible = True
        s = size
        for i in range(ns):
            if s < 2:
                feasible = False
                break
            s = s // 2
        try:
            ms = build_multiscale(shape, sd, ns, "tag")
            built = True
        except Exception as e:
            built = False
            if feasible:
                r.ev()
                r.viol("construct", "multiscale add_transform rejects an admissible configuration", cfg=cfg, exc=repr(e)[:200])
        if not built:
            r.count("multiscale_rejected_configs")
            continue
        r.ev()
        r.count("multiscale_configs")
        N = int(np.prod(shape))
        B = 2
        x = (torch.arange(N, dtype=torch.float64).reshape(shape) + 1.0)[None].repeat(B, *([1] * len(shape)))
        x[1] += 0.25          # second batch row: distinct values again
        try:
            with torch.no_grad():
                y, lad = ms(x)
        except Exception as e:
            r.viol("forward_raises", "multiscale forward raises on an accepted configuration", cfg=cfg, exc=repr(e)[:200])
            continue
        order, trav = route_reference(shape, sd, ns)
        exp = torch.tensor([[order[p] + 1.0 + b * 0.25 + sum(10.0 ** (4 + i) for i in range(trav[p])) for p in range(N)]
                            for b in range(B)], dtype=torch.float64)
        if tuple(y.shape) != (B, N):
            r.viol("shape", "multiscale output is not [batch, prod(shape)]", cfg=cfg, got=list(y.shape))
            continue
        if not torch.equal(y, exp):
            bad = (y != exp).nonzero()
            p = int(bad[0][1])
            r.viol("routing", "multiscale routes a coordinate to the wrong position / through the wrong stages", cfg=cfg,
                   position=p, got=float(y[0, p]), expected=float(exp[0, p]), n_wrong=int(len(bad)))
        ids_seen = sorted(int(round(float(v) % 10000)) for v in y[0])
        if ids_seen != list(range(1, N + 1)):
            r.viol("routing_bijection", "multiscale does not emit every input coordinate exactly once", cfg=cfg)
        if float(lad.abs().max()) != 0.0:
            r.viol("lad", "multiscale logabsdet of pure shifts is not 0", cfg=cfg, got=lad.tolist())
        # the same object again (per-call state such as a consumed iterator shows on the second call)
        try:
            with torch.no_grad():
                y_again, lad_again = ms(x)
            r.count("multiscale_repeated_calls")
            if tuple(y_again.shape) != tuple(y.shape) or not torch.equal(y_again, y) or not torch.equal(lad_again, lad):
                r.viol("repeat", "multiscale gives a different result when forward is called a second time on the same object", cfg=cfg)
        except Exception as e:
            r.viol("forward_raises", "multiscale forward raises when called a second time on the same object", cfg=cfg, exc=repr(e)[:200])
        try:
            with torch.no_grad():
                xb, ladb = ms.inverse(y)
            if tuple(xb.shape) != tuple(x.shape) or not torch.equal(xb, x):
                r.viol("inverse", "multiscale inverse(forward(x)) != x", cfg=cfg,
                       got_shape=list(xb.shape))
        except Exception as e:
            r.viol("inverse_raises", "multiscale inverse raises on its own forward output", cfg=cfg, exc=repr(e)[:200])
        # log-det bookkeeping with per-stage scales: block emitted after stage i carries log-dets of stages 0..i
        try:
            ms2 = build_multiscale(shape, sd, ns, "scale")
            with torch.no_grad():
                y2, lad2 = ms2(x)
                x2, lad2b = ms2.inverse(y2)
            exp_lad = sum(np.log(float(i + 2)) for p in range(N) for i in range(trav[p]))
            if abs(float(lad2[0]) - exp_lad) > 1e-9 * (1 + abs(exp_lad)):
                r.viol("lad_sum", "multiscale logabsdet != sum over the stages each coordinate traversed", cfg=cfg,
                       got=float(lad2[0]), expected=exp_lad)
            if abs(float(lad2b[0]) + exp_lad) > 1e-9 * (1 + abs(exp_lad)):
                r.viol("lad_sum_inverse", "multiscale inverse logabsdet != -(forward logabsdet)", cfg=cfg,
                       got=float(lad2b[0]), expected=-exp_lad)
            if not torch.allclose(x2, x, rtol=1e-12, atol=1e-12):
                r.viol("inverse", "multiscale inverse(forward(x)) != x (scaled stages)", cfg=cfg)
        except Exception as e:
            r.viol("scaled_raises", "multiscale with scaling stages raises", cfg=cfg, exc=repr(e)[:200])
        # one transform OBJECT used for every stage (weight sharing): still ns stages, in both directions
        if ns >= 2:
            try:
                from nflows import transforms as T
                ms3 = T.MultiscaleCompositeTransform(num_transforms=ns, split_dim=sd)
                shared = T.PointwiseAffineTransform(shift=0.0, scale=3.0)
                cur = tuple(shape)
                for i in range(ns):
                    cur = ms3.add_transform(shared, cur)
                with torch.no_grad():
                    y3, lad3 = ms3(x)
                    x3, lad3b = ms3.inverse(y3)
                r.count("multiscale_shared_stage_objects")
                exp3 = sum(np.log(3.0) for p in range(N) for i in range(trav[p]))
                if tuple(x3.shape) != tuple(x.shape) or not torch.allclose(x3, x, rtol=1e-12, atol=1e-12):
                    r.viol("inverse", "multiscale inverse(forward(x)) != x when one transform object serves several stages", cfg=cfg,
                           got_shape=list(x3.shape))
                elif abs(float(lad3[0]) - exp3) > 1e-9 * (1 + abs(exp3)) or abs(float(lad3b[0]) + exp3) > 1e-9 * (1 + abs(exp3)):
                    r.viol("lad_sum", "multiscale logabsdet wrong when one transform object serves several stages", cfg=cfg,
                           got=float(lad3[0]), got_inverse=float(lad3b[0]), expected=exp3)
            except Exception as e:
                r.viol("scaled_raises", "multiscale with a shared stage object raises", cfg=cfg, exc=repr(e)[:200])
        if ns >= 2:
            r.cell("multiscale", shape, sd, ns)
    r.sample({"multiscale_example": case["grid"][0],
              "routing": route_reference(tuple(case["grid"][0]["shape"]), case["grid"][0]["split_dim"], case["grid"][0]["stages"])[0][:12]})
    return r.done()
