"""C09 - spline transformers are increasing bijections of their box, identity in the tails.

Monitor: order / continuity / range oracle over SORTED grids evaluated by the real spline functions in one call
per parameter batch.  Each row's grid is the union of a uniform grid, every reference knot and its floating-point
neighbours (+-1 ulp, +-1e-9, +-1e-6 of the range), both end-points and, for the unconstrained variants, the tail
junction (+-B, its ulp neighbours, 1.5B, 100B).  Only returned outputs and log-derivatives are used.
Both directions are checked (the inverse must be an increasing bijection of [bottom, top] onto [left, right])."""
import numpy as np
import torch

from vf import env, splineref
from vf.result import R

RULE = ("case = (spline family, bounded box | linear tails with bound B, bins from 1, parameter scale incl. exactly zero and "
        "+-15 alternating, dtype); per case 48-256 parameter rows x a sorted grid of ~500-4000 points per row; one evaluation "
        "= one grid row checked; a cell (family, box kind, bins, parameter policy, direction, dtype) is non-trivial when the row's "
        "function is not the identity and at least one knot neighbourhood (k-ulp, k, k+ulp) lies in the grid")
ASSUMPTIONS = ["float tolerance: 8 ulps of the box size for end-points/range, jumps bounded by (max returned slope in the row) * dx + 8 ulps",
               "strictness is only demanded where slope * dx exceeds 32 ulps of the output"]
REQUIRED_COUNTS = ["grid_rows", "knot_neighbourhoods", "tail_points"]
BUDGET = {"case_timeout": {"quick": 300, "thorough": 1800}}

BOXES = splineref.BOXES + [[-1000.0, 1000.0, -1000.0, 1000.0], [0.0, 4.0, 0.0, 1.0], [-1.0, 3.0, 0.0, 1.0]]
# narrow boxes far from the origin (float32: the knots are rounded to 6e-5 of a box that is 1 wide)
FAR_BOXES = [[1000.0, 1001.0, 0.0, 1.0], [-513.0, -512.0, -513.0, -512.0], [96.0, 96.5, 0.0, 1.0], [0.0, 1.0, 2000.0, 2001.0]]
TAILS = [0.5, 1.0, 3.0, 30.0, 1e3]
PSCALES = ["zero", 0.3, 1.0, 3.0, "extreme", "huge"]


# boxes whose ends are not single-precision numbers and are not symmetric about the origin: anything that normalises the inputs
# before comparing them with the box (or compares in another precision) misjudges an input sitting exactly on an end
ASYM_BOXES = [[-0.3, 0.6, -0.3, 0.6], [0.1, 0.3, 0.0, 1.0], [0.1, 0.7, 0.1, 0.7], [-1.2, 0.9, -0.7, 1.1]]


def gen_cases(tier, seed):
    cases = []
    nrep = 1 if tier == "quick" else 6
    for fam in ("linear", "quadratic", "cubic", "rq"):
        for rep in range(nrep):
            for bi, bx in enumerate(BOXES):
                for pi, ps in enumerate(PSCALES):
                    K = [1, 2, 3, 5, 8, 10][(bi + pi + rep) % 6]
                    cases.append({"family": fam, "box": bx, "bins": K, "pscale": ps,
                                  "world": ("f32" if (bi + rep) % 2 else "f64") if ps == "huge" else
                                  "f64" if (bi + pi + rep) % 4 or ps in (3.0, "extreme") else "f32",
                                  "seed": env.subseed(seed, "c09", fam, bi, pi, rep), "tier_": tier, "cost": 1})
            for bi, bx in enumerate(FAR_BOXES):
                for pi, ps in enumerate((0.3, 1.0, 3.0)):
                    K = [2, 5, 8, 10][(bi + pi + rep) % 4]
                    cases.append({"family": fam, "box": bx, "bins": K, "pscale": ps, "world": "f32" if (bi + pi) % 3 else "f64",
                                  "seed": env.subseed(seed, "c09far", fam, bi, pi, rep), "tier_": tier, "cost": 1})
            for bi, bx in enumerate(ASYM_BOXES):
                for pi, ps in enumerate((0.0, 1.0, 3.0)):
                    K = [1, 3, 8, 10][(bi + pi + rep) % 4]
                    cases.append({"family": fam, "box": bx, "bins": K, "pscale": ps, "world": "f64" if (bi + pi) % 3 == 2 else "f32",
                                  "seed": env.subseed(seed, "c09asym", fam, bi, pi, rep), "tier_": tier, "cost": 1})
            for ti, B in enumerate(TAILS):
                for pi, ps in enumerate(PSCALES):
                    K = [1, 2, 3, 5, 8, 10, 4][(ti + pi + rep) % 7]
                    cases.append({"family": fam, "box": None, "B": B, "bins": K, "pscale": ps,
                                  "world": ("f32" if (ti + rep) % 2 else "f64") if ps == "huge" else
                                  "f64" if (ti + pi + rep) % 4 or ps in (3.0, "extreme") else "f32",
                                  "seed": env.subseed(seed, "c09t", fam, ti, pi, rep), "tier_": tier, "cost": 1})
    return cases


def params_for(fam, n, K, ps, g, tails):
    if ps == "zero":
        return splineref.random_params(fam, n, K, 0.0, g, tails=tails)
    if ps == "extreme":
        p = splineref.random_params(fam, n, K, 1.0, g, tails=tails)
        for k in p:
            alt = torch.ones(p[k].shape[-1])
            alt[::2] = -1
            sign = torch.where(torch.rand(n, 1, generator=g) < 0.5, -1.0, 1.0)
            p[k] = p[k] + 15.0 * alt * sign
        return p
    if ps == "huge":
        # knot-derivative parameters far outside the range where exp() is representable in float32 (88.7) - in float64
        # (709.8) for half of the rows: a hand-written softplus / sigmoid overflows where the library function does not.
        # Only the derivative parameters: huge *softmax* logits (widths, heights, pdf) make bins underflow to exactly zero
        # mass, where no floating-point evaluation can be a bijection (the linear spline has no floor at all).
        p = splineref.random_params(fam, n, K, 1.0, g, tails=tails)
        for k in p:
            if "deriv" in k:
                alt = torch.ones(p[k].shape[-1])
                alt[::2] = -1
                sign = torch.where(torch.rand(n, 1, generator=g) < 0.5, -1.0, 1.0)
                mag = torch.where(torch.rand(n, 1, generator=g) < 0.5, 120.0, 800.0)
                if fam == "cubic":
                    # the cubic end slopes are sigmoid(u) * 3 * chord slope with no floor: sigmoid(-120) is exactly 0 in
                    # float32 and the end-point derivative vanishes (saturated, not a bijection); only +huge is meaningful
                    alt, sign = torch.ones_like(alt), torch.ones_like(sign)
                p[k] = p[k] + mag * alt * sign
        if fam == "quadratic":
            # the quadratic spline's heights go through softplus(.) + 1e-3 (a floor that does not depend on the
            # min_bin_height argument): strongly negative height parameters stay at the floor
            k = "unnormalized_heights"
            alt = torch.zeros(p[k].shape[-1])
            alt[::2] = -1
            alt = alt if torch.rand(1, generator=g) < 0.7 else -torch.ones_like(alt)
            mag = torch.where(torch.rand(n, 1, generator=g) < 0.5, 120.0, 800.0)
            p[k] = p[k] + mag * alt
        return p
    return splineref.random_params(fam, n, K, float(ps), g, tails=tails)


def make_grid(kn, lo, hi, g, npts, tails_B, dtype):
    n = kn.shape[0]
    rng_ = hi - lo
    base = lo + rng_ * torch.linspace(0, 1, npts, dtype=dtype)[None].expand(n, -1)
    extra = []
    for j in range(kn.shape[1]):
        k = kn[:, j:j + 1]
        up = torch.nextafter(k, torch.full_like(k, float("inf")))
        dn = torch.nextafter(k, torch.full_like(k, float("-inf")))
        extra += [k, up, dn, k + 1e-9 * rng_, k - 1e-9 * rng_, k + 1e-6 * rng_, k - 1e-6 * rng_]
    x = torch.cat([base] + extra, 1).clamp(lo, hi)
    if tails_B is not None:
        B = torch.full((n, 1), float(tails_B), dtype=dtype)
        upB = torch.nextafter(B, torch.full_like(B, float("inf")))
        t = torch.cat([upB, -upB, B * (1 + 1e-6), -B * (1 + 1e-6), 1.5 * B, -1.5 * B, 100 * B, -100 * B,
                       B + 1e-3, -B - 1e-3], 1)
        x = torch.cat([x, t], 1)
    return torch.sort(x, dim=1).values


def run_case(case):
    r = R(case)
    fam, K, ps = case["family"], case["bins"], case["pscale"]
    dtype = torch.get_default_dtype()
    eps = torch.finfo(dtype).eps
    g = torch.Generator().manual_seed(case["seed"])
    bx = case["box"]
    tails = bx is None
    K = max(K, splineref.min_bins(fam, tails))
    n = 48 if case["tier_"] == "quick" else 128
    npts = 400 if case["tier_"] == "quick" else 3000
    params = params_for(fam, n, K, ps, g, tails)
    if tails:
        B = case["B"]
        left, right, bottom, top = -B, B, -B, B
        fn = splineref.fn(fam, True)
        kw = {"tail_bound": B, "tails": "linear"}
    else:
        left, right, bottom, top = bx
        fn = splineref.fn(fam, False)
        kw = {"left": left, "right": right, "bottom": bottom, "top": top}
    mbw = 1e-3
    if fam != "linear" and case["seed"] % 3 == 0:
        # non-default, unequal bin floors (their product with the bin count must stay <= 1)
        mbw = [0.02, 0.05, 0.004][case["seed"] % 7 % 3] if K <= 10 else 1e-3
        mbh = [0.01, 0.03, 0.06][case["seed"] % 5 % 3]
        kw["min_bin_width"], kw["min_bin_height"] = mbw, mbh
    if fam == "quadratic" and ps == "huge" and case["seed"] % 2:
        kw["min_bin_height"] = 0.0          # legal; the heights' own floor is what keeps the spline a bijection
    wx, wy = right - left, top - bottom
    xk = splineref.knots(fam, params, left, right, bottom, top, tails=tails, min_bin_width=mbw)["x"].to(dtype)
    boxkind = "tails" if tails else ("square" if abs(wx - wy) < 1e-12 and abs(left - bottom) < 1e-12 else "nonsquare")

    def call(x, inverse):
        P = x.shape[1]
        pp = {k: v[:, None, :].expand(n, P, v.shape[-1]) for k, v in params.items()}
        with torch.no_grad():
            return fn(inputs=x, inverse=inverse, **pp, **kw)

    for direction in ("forward", "inverse"):
        inv = direction == "inverse"
        lo, hi = (bottom, top) if inv else (left, right)
        olo, ohi = (left, right) if inv else (bottom, top)
        if inv:
            # y-knots: image of the reference x-knots under the real forward (placement only)
            try:
                kn = call(xk.clamp(left, right), False)[0].clamp(bottom, top)
                kn = torch.sort(kn, dim=1).values
            except Exception as e:
                r.ev()
                r.viol("raises", "spline %s forward raises on its knots" % fam, exc=repr(e)[:200], box=bx, bins=K)
                continue
        else:
            kn = xk
        x = make_grid(kn, lo, hi, g, npts, case.get("B") if tails else None, dtype)
        try:
            y, lad = call(x, inv)
        except Exception as e:
            r.ev()
            r.viol("raises", "spline %s %s raises on an in-domain grid" % (fam, direction), exc=repr(e)[:200],
                   exc_type=type(e).__name__, box=bx, B=case.get("B"), bins=K, pscale=ps, world=case["world"])
            continue
        # the same grid stored column-major (a dense, non-contiguous tensor as produced by `.T`): same function
        try:
            y2, lad2 = call(x.t().contiguous().t(), inv)
            r.count("layout_rows", n)
            same = torch.isfinite(y) & torch.isfinite(lad)
            tol_l = 64 * eps * (1 + y.abs())
            if y2.shape != y.shape or bool(((y2 - y).abs() > tol_l)[same].any()) or bool(((lad2 - lad).abs() > 1e-6 * (1 + lad.abs()))[same].any()):
                r.viol("layout", "spline %s gives other values for a column-major input tensor" % fam, direction=direction, box=bx,
                       B=case.get("B"), bins=K, pscale=ps, world=case["world"],
                       max_diff=float((y2 - y).abs()[same].max()) if y2.shape == y.shape and same.any() else None)
        except Exception as e:
            r.viol("raises", "spline %s %s raises on a column-major input tensor" % (fam, direction), exc=repr(e)[:200],
                   exc_type=type(e).__name__, box=bx, B=case.get("B"), bins=K, pscale=ps, world=case["world"])
        r.ev(n)
        r.count("grid_rows", n)
        r.count("knot_neighbourhoods", n * kn.shape[1])
        orng = ohi - olo
        scale = max(abs(olo), abs(ohi), orng)
        tol = 8 * eps * scale
        det = dict(family=fam, direction=direction, box=bx, B=case.get("B"), bins=K, pscale=ps, world=case["world"],
                   box_kind=boxkind)

        def first(mask):
            i, j = [int(v) for v in mask.nonzero()[0]]
            return i, j
        fin = torch.isfinite(y) & torch.isfinite(lad)
        inside = (x >= lo) & (x <= hi)
        # slopes beyond ~1/sqrt(eps) of the dtype: the output has collapsed onto neighbouring values, nothing is decidable
        sat = lad.abs() > (25.0 if dtype == torch.float64 else 11.0)
        if dtype == torch.float32:
            # float32: a log-derivative that is NaN / inf while the VALUE is finite is the derivative polynomial cancelling to <= 0
            # (narrow bins: coefficients of size 1 / width^2; flat end slopes) - the property speaks about the function, and the
            # float32 finiteness of log-dets on moderate parameters is C19's clause; counted here, judged in the float64 world
            only_lad = torch.isfinite(y) & ~torch.isfinite(lad) & inside
            if only_lad.any():
                r.count("f32_nonfinite_logderivative_not_judged", int(only_lad.sum()))
                sat = sat | only_lad
        if (~fin & inside & ~sat).any():
            i, j = first(~fin & inside & ~sat)
            # a NaN log-derivative next to a saturated neighbourhood is the same collapse
            nb = sat[i, max(0, j - 3):j + 4].any() or (~torch.isfinite(lad[i])).float().mean() > 0.02
            if not nb:
                r.viol("nonfinite", "spline %s returns non-finite values on its box" % fam, x=float(x[i, j]), y=float(y[i, j]),
                       lad=float(lad[i, j]), **det)
                continue
        ok = fin & ~sat
        y = torch.where(fin, y, torch.zeros_like(y))
        slope = torch.exp(lad.clamp(-50, 50))
        smax_row = torch.where(ok, slope, torch.zeros_like(slope)).max(dim=1, keepdim=True).values
        # ... and the steepest chord actually observed on the grid (returned slopes are only samples)
        dx0 = x[:, 1:] - x[:, :-1]
        chord = torch.where((dx0 > 1e-9 * (hi - lo)) & ok[:, 1:] & ok[:, :-1], (y[:, 1:] - y[:, :-1]) / dx0.clamp_min(1e-300),
                            torch.zeros_like(dx0))
        smax_row = torch.maximum(smax_row, chord.max(dim=1, keepdim=True).values)
        # evaluation noise of the library's own arithmetic: input rounding amplified by the slope, plus O(K) roundings
        noise = 256 * eps * scale * (1 + smax_row)
        r.worst("max_row_slope", float(smax_row.max()))
        # ---- range
        # strict: one ulp outside is already rejected by whatever bounded transform comes next (a Logit after a CDF raised
        # InputOutsideDomain for valid data, fixes 9265afa / c9c80e2); all four splines clamp, so no allowance is due
        out_of = inside & ok & ((y < olo) | (y > ohi))
        if out_of.any():
            i, j = first(out_of)
            r.viol("range", "spline %s leaves its output interval" % fam, x=float(x[i, j]), y=float(y[i, j]),
                   lo=olo, hi=ohi, noise=float(noise[i, 0]), **det)
        # ---- end points
        for xe, ye, nm in ((lo, olo, "lower"), (hi, ohi, "upper")):
            m = (x == xe) & ok
            if m.any():
                rel = ((y - ye).abs() / noise) * m
                r.worst("endpoint_err/tol", float(rel.max()))
                if (rel > 1).any():
                    i, j = first(rel > 1)
                    r.viol("endpoint", "spline %s does not map the %s end-point of the input interval to that of the output interval"
                           % (fam, nm), x=float(x[i, j]), y=float(y[i, j]), expected=ye, noise=float(noise[i, 0]), **det)
        # ---- tails: identity with zero log-det outside, continuous at the junction
        if tails:
            outm = (x.abs() > hi) & fin
            r.count("tail_points", int(outm.sum()))
            bad = outm & ((y != x) | (lad != 0))
            if bad.any():
                i, j = first(bad)
                r.viol("tails", "spline %s is not the identity with zero logabsdet outside the tail bound" % fam,
                       x=float(x[i, j]), y=float(y[i, j]), lad=float(lad[i, j]), **det)
        else:
            r.count("tail_points", 0)
        # ---- monotone / strict / continuous along the sorted grid (whole line for tails)
        ok_pair = ok[:, 1:] & ok[:, :-1]
        dx = x[:, 1:] - x[:, :-1]
        dy = y[:, 1:] - y[:, :-1]
        dec = ok_pair & (dy < -noise)
        if dec.any():
            i, j = first(dec)
            r.viol("not_monotone", "spline %s decreases" % fam, x1=float(x[i, j]), x2=float(x[i, j + 1]), y1=float(y[i, j]),
                   y2=float(y[i, j + 1]), noise=float(noise[i, 0]), **det)
        smin_pair = torch.minimum(slope[:, 1:], slope[:, :-1])
        must_grow = ok_pair & (dx > 0) & (0.25 * smin_pair * dx > 4 * noise)
        flat = must_grow & (dy <= 0)
        if flat.any():
            i, j = first(flat)
            r.viol("not_strict", "spline %s is flat where its own slope says it must grow" % fam, x1=float(x[i, j]),
                   x2=float(x[i, j + 1]), y=float(y[i, j]), slope=float(smin_pair[i, j]), **det)
        # continuity: across tiny steps (knot / junction neighbourhoods, dx <= 2e-6 of the range) the increment is
        # bounded by the larger of the two returned slopes times dx (a jump does not shrink with dx)
        smax_pair = torch.maximum(slope[:, 1:], slope[:, :-1])
        tiny_step = ok_pair & (dx <= 2e-6 * (hi - lo))
        if ps in ("zero", 0.3, 1.0):
            jump = tiny_step & (dy > 8 * smax_pair * dx + 4 * noise)
        elif not inv:
            # strongly non-uniform bins: returned slopes vary by orders of magnitude within 1e-6; the forward slope of
            # the floor-ed families is still bounded by (max height)/(min width) ~ 3e3 in normalised units
            jump = tiny_step & (dy > 1e5 * (orng / (hi - lo)) * dx + 4 * noise) if fam != "linear" else \
                tiny_step & (dy > 4 * K * (orng / (hi - lo)) * dx + 4 * noise)
        else:
            jump = torch.zeros_like(tiny_step)      # inverse slopes are unbounded (1e13 observed): not decidable
        if jump.any():
            i, j = first(jump)
            r.viol("jump", "spline %s is discontinuous" % fam, x1=float(x[i, j]), x2=float(x[i, j + 1]), y1=float(y[i, j]),
                   y2=float(y[i, j + 1]), dx=float(dx[i, j]), noise=float(noise[i, 0]), **det)
        nonid = bool(((y - x).abs() > 1e-6 * scale)[inside].any())
        if nonid:
            r.cell(fam, boxkind, K, ps, direction, case["world"])
    r.sample({"family": fam, "box": bx, "B": case.get("B"), "bins": K, "pscale": ps, "rows": n, "world": case["world"]})
    return r.done()
