"""C10 - weight caching in the linear family is transparent over every history.

Monitor: lock-step twin.  The real object (cache flag as the history sets it) is stepped through a history over
{train(), eval(), use_cache(on/off), forward, inverse, training step (optimiser update in training mode),
load_state_dict (of the layer, of its container, of a sub-module that owns parameters), .double()/.float(),
forward+backward twice, deepcopy}; after every call that returns numbers a
TWIN - a fresh instance of the same class and constructor arguments with using_cache=False, synchronised through
load_state_dict (the cache is not part of the state dict, so the twin is independent of it) and put in the same
mode/dtype - performs the same call and the results are compared.  An exception in the real object that the twin
does not raise is a violation.  Histories: exhaustive up to a length bound over the alphabet + long random ones.
Abstract states (training, using_cache, weight/inverse/logabsdet cached?, dtype) and transitions are counted."""
import copy
import itertools

import numpy as np
import torch

from vf import env
from vf.result import R

RULE = ("history = sequence over the alphabet; exhaustive for length <= L (L=3 quick, 4 thorough) x 5 classes, plus random "
        "histories of length 5-40; one evaluation = one compared call; distinct non-trivial = distinct (class, abstract cache "
        "state before the call, operation) triples in which the cached path was actually taken (eval mode, cache on) and the "
        "weights were not the initial ones")
ASSUMPTIONS = ["the twin (same class/arguments, using_cache=False, state synced by load_state_dict) is the specification of "
               "'recomputing from the current parameters'", "parameter updates happen in training mode (as the property states)"]
REQUIRED_COUNTS = ["compared_calls", "cached_path_calls", "histories", "tour_histories"]
BUDGET = {"case_timeout": {"quick": 400, "thorough": 3000}}

OPS = ["eval", "train_step", "cache_on", "cache_off", "forward", "inverse", "load_state", "to_double", "to_float",
       "fwd_bwd_twice", "deepcopy", "train", "load_child"]
CLASSES = ["lu", "qr", "svd", "naive", "conv"]


def make(cls, F, seed, cache):
    from nflows import transforms as T
    torch.manual_seed(seed)
    if cls == "lu":
        return T.LULinear(F, using_cache=cache, identity_init=False)
    if cls == "qr":
        return T.QRLinear(F, num_householder=3, using_cache=cache)
    if cls == "svd":
        return T.SVDLinear(F, num_householder=4, using_cache=cache, identity_init=False)
    if cls == "naive":
        return T.NaiveLinear(F, using_cache=cache)
    return T.OneByOneConvolution(F, using_cache=cache, identity_init=False)


def gen_cases(tier, seed):
    rng = np.random.default_rng(seed + 3)
    L = 3 if tier == "quick" else 4
    alpha = ["eval", "train_step", "cache_on", "forward", "inverse", "load_state", "to_double", "fwd_bwd_twice", "load_child"]
    hist = []
    for n in range(1, L + 1):
        hist.extend(list(h) for h in itertools.product(alpha, repeat=n))
    nrand = 150 if tier == "quick" else 10000
    for _ in range(nrand):
        n = int(rng.integers(5, 41))
        hist.append([str(rng.choice(OPS, p=_P)) for _ in range(n)])
    cases = []
    per = 60 if tier == "quick" else 150
    k = 0
    # transition tour: every (reachable abstract state, operation) pair followed by an observing suffix
    for cls in CLASSES:
        for F in ((2,) if tier == "quick" else (1, 2, 3)):
            cases.append({"kind": "tour", "cls": cls, "F": F, "seed": env.subseed(seed, "c10tour", cls, F),
                          "world": "f32", "cost": 6, "histories": []})
    for cls in CLASSES:
        for i in range(0, len(hist), per):
            cases.append({"cls": cls, "F": [1, 2, 3, 4][k % 4], "histories": hist[i:i + per],
                          "seed": env.subseed(seed, "c10", cls, i), "world": "f32", "cost": 2})
            k += 1
    return cases


_P = np.array([3, 2, 2, 1, 4, 4, 2, 1, 1, 2, 1, 1, 1.5], dtype=float)
_P = _P / _P.sum()


def astate(m):
    c = m.cache
    return "%s|%s|w%d i%d l%d|%s" % ("T" if m.training else "E", "C" if m.using_cache else "-", c.weight is not None,
                                      c.inverse is not None, c.logabsdet is not None,
                                      "f64" if m.bias.dtype == torch.float64 else "f32")


def sync_twin(real, twin):
    twin.to(real.bias.dtype)                       # dtype first: load_state_dict copies INTO the twin's dtype
    twin.load_state_dict(real.state_dict())
    twin.train(real.training)


def inputs_for(cls, F, g, dtype):
    n = (3, 1, 4)[int(torch.randint(3, (1,), generator=g))]       # single-row batches too
    if cls == "conv":
        return torch.randn(n, F, 2, 2, generator=g).to(dtype)
    return torch.randn(n, F, generator=g).to(dtype)


PROBES = [["eval", "cache_on", "forward", "inverse"], ["forward", "inverse"], ["eval", "cache_on", "inverse", "forward"],
          ["cache_on", "eval", "fwd_bwd_twice"]]


def tour_histories(cls, F, seed):
    """BFS over the abstract cache states of the real object; returns path+[op]+probe for every (state, op)."""
    paths = {}
    queue = []
    for init_cache in (False, True):
        m = make(cls, F, seed, cache=init_cache)
        st = astate(m)
        if st not in paths:
            paths[st] = (init_cache, [])
            queue.append(st)
    g = torch.Generator()

    def replay(init_cache, hist):
        m = make(cls, F, seed, cache=init_cache)
        tw = make(cls, F, seed + 1, cache=False)
        g.manual_seed(seed)
        rr = R({})
        for op in hist:
            step(rr, cls, F, m, tw, op, g, hist, False, "")
        return astate(m)
    while queue:
        st = queue.pop(0)
        init_cache, path = paths[st]
        for op in OPS:
            try:
                s2 = replay(init_cache, path + [op])
            except Exception:
                continue
            if s2 not in paths:
                paths[s2] = (init_cache, path + [op])
                queue.append(s2)
    out = []
    for st, (init_cache, path) in paths.items():
        for op in OPS:
            for probe in PROBES:
                out.append((init_cache, path + [op] + probe))
    return out, len(paths)


def run_case(case):
    r = R(case)
    cls, F = case["cls"], case["F"]
    states, transitions = set(), set()
    if case.get("kind") == "tour":
        hs, nstates = tour_histories(cls, F, case["seed"])
        r.count("tour_abstract_states", nstates)
        r.count("tour_histories", len(hs))
        case = dict(case, histories=[h for _, h in hs], init_cache=[c for c, _ in hs])
    for hi, hist in enumerate(case["histories"]):
        seed = env.subseed(case["seed"], hi)
        g = torch.Generator().manual_seed(seed)
        try:
            init_cache = case["init_cache"][hi] if "init_cache" in case else bool(seed % 2)
            real = make(cls, F, seed, cache=init_cache)
            twin = make(cls, F, seed + 1, cache=False)
        except Exception as e:
            r.viol("construct", "%s constructor raises" % cls, exc=repr(e)[:200])
            break
        r.count("histories")
        changed = False
        for si, op in enumerate(hist):
            before = astate(real)
            cached_path = (not real.training) and real.using_cache
            ok = step(r, cls, F, real, twin, op, g, hist[:si + 1], cached_path and changed, before)
            if op in ("train_step", "load_state", "load_child"):
                changed = True
            after = astate(real)
            states.add(after)
            transitions.add((before, op, after))
            if not ok:
                break
    r.count("abstract_states_seen", 0)
    r.metrics["abstract_states"] = len(states)
    r.metrics["abstract_transitions"] = len(transitions)
    case = {k: v for k, v in case.items() if k not in ("histories", "init_cache")} if case.get("kind") == "tour" else case
    r.case = case
    r.sample({"class": cls, "features": F, "history": (case.get("histories") or [["(tour)"]])[min(5, len(case.get("histories") or [[]]) - 1)],
              "states_seen": sorted(states)[:6]})
    res = r.done()
    res["states"] = sorted(states)
    res["transitions"] = sorted("%s --%s--> %s" % t for t in transitions)
    return res


def _cmp(r, what, a, b, cls, hist, before, op, dtype):
    tol = 1e-10 if dtype == torch.float64 else 2e-5
    if a.shape != b.shape:
        r.viol("shape", "%s cached %s shape differs from uncached" % (cls, what), history=hist, state=before, op=op)
        return False
    if a.dtype != b.dtype:
        r.viol("dtype", "%s cached %s dtype differs from uncached" % (cls, what), history=hist, state=before, op=op,
               got=str(a.dtype), want=str(b.dtype))
        return False
    err = float((a - b).abs().max()) if a.numel() else 0.0
    scale = 1 + float(b.abs().max()) if b.numel() else 1.0
    r.worst("cached_vs_uncached_err/tol", err / (tol * scale))
    if not err <= tol * scale:
        r.viol("stale", "%s with caching returns %s that differ from recomputation from the current parameters" % (cls, what),
               history=hist, state=before, op=op, err=err, what=what)
        return False
    return True


def step(r, cls, F, real, twin, op, g, hist, interesting, before):
    dtype = real.bias.dtype
    try:
        if op == "eval":
            real.eval()
        elif op == "train":
            real.train()
        elif op == "cache_on":
            real.use_cache(True)
        elif op == "cache_off":
            real.use_cache(False)
        elif op == "train_step":
            real.train()
            x = inputs_for(cls, F, g, dtype)
            opt = torch.optim.SGD(real.parameters(), lr=0.05)
            opt.zero_grad()
            out, lad = real(x)
            (out.pow(2).mean() - lad.mean()).backward()
            opt.step()
        elif op == "load_state":
            sd = {k: (v + 0.3 * torch.randn(v.shape, generator=g).to(v.dtype) if v.is_floating_point() else v)
                  for k, v in real.state_dict().items()}
            if int(torch.randint(2, (1,), generator=g)):
                real.load_state_dict(sd)
            else:
                # the usual way a checkpoint reaches a layer: through its container (children are restored by
                # _load_from_state_dict, the public load_state_dict of the child is never called)
                from nflows.transforms.base import CompositeTransform
                parent = CompositeTransform([real])
                parent.load_state_dict({"_transforms.0." + k: v for k, v in sd.items()})
        elif op == "load_child":
            # a state-dict load addressed to a sub-module that owns part of the parameterisation (the Householder factors of
            # QR / SVD): the current parameters of the linear transform change without its own load hook being called
            kids = [(n_, m_) for n_, m_ in real.named_children() if list(m_.parameters())]
            if kids:
                n_, m_ = kids[int(torch.randint(len(kids), (1,), generator=g))]
                m_.load_state_dict({k: (v + 0.5 * torch.randn(v.shape, generator=g).to(v.dtype) if v.is_floating_point() else v)
                                    for k, v in m_.state_dict().items()})
                r.count("child_loads")
        elif op == "to_double":
            real.double()
        elif op == "to_float":
            real.float()
        elif op in ("forward", "inverse"):
            x = inputs_for(cls, F, g, dtype)
            sync_twin(real, twin)
            with torch.no_grad():
                ref = (twin.forward if op == "forward" else twin.inverse)(x)
                got = (real.forward if op == "forward" else real.inverse)(x)
            r.ev()
            r.count("compared_calls")
            if (not real.training) and real.using_cache:
                r.count("cached_path_calls")
            good = _cmp(r, "outputs", got[0], ref[0], cls, hist, before, op, dtype) and \
                _cmp(r, "logabsdet", got[1], ref[1], cls, hist, before, op, dtype)
            if good:
                # the results belong to the caller, who may go on accumulating into them (logabsdet += ..., outputs *= ...) as
                # with the uncached transform; whatever that does to the memo shows in the next compared call
                try:
                    ref[1].add_(1.0)
                    ref[0].mul_(2.0)
                except Exception:
                    pass
                else:
                    r.count("inplace_updates_of_results")
                    try:
                        got[1].add_(1.0)
                        got[0].mul_(2.0)
                    except Exception as e:
                        r.viol("raises", "%s with caching returns results that cannot be updated in place where the uncached transform's can" % cls,
                               history=hist, state=before, op=op, exc=repr(e)[:200], exc_type=type(e).__name__)
                        return False
            if interesting and good:
                r.cell(cls, before, op)
            return good
        elif op == "fwd_bwd_twice":
            sync_twin(real, twin)
            grads = []
            for model in (twin, real):
                gs = []
                for rep in range(2):
                    x = inputs_for(cls, F, torch.Generator().manual_seed(7 + rep), dtype).requires_grad_(True)
                    out, lad = model(x)
                    (out.pow(2).sum() + lad.sum()).backward()
                    gs.append(x.grad.detach().clone())
                model.zero_grad(set_to_none=True)
                grads.append(gs)
            r.ev()
            r.count("compared_calls")
            if (not real.training) and real.using_cache:
                r.count("cached_path_calls")
            for rep in range(2):
                if not _cmp(r, "input gradients", grads[1][rep], grads[0][rep], cls, hist, before, op, dtype):
                    return False
            if interesting:
                r.cell(cls, before, op)
        elif op == "deepcopy":
            cp = copy.deepcopy(real)
            x = inputs_for(cls, F, g, dtype)
            with torch.no_grad():
                a = cp(x)
                b = real(x)
            r.ev()
            r.count("compared_calls")
            if not (torch.equal(a[0], b[0]) and torch.equal(a[1], b[1])):
                r.viol("deepcopy", "%s deepcopy behaves differently from the original" % cls, history=hist, state=before)
                return False
    except Exception as e:
        # does the uncached twin support the same operation in the same situation?
        twin_ok = True
        try:
            tw = make(cls, F, 5, cache=False)
            tw.to(dtype)
            tw.load_state_dict(real.state_dict())
            tw.train(real.training)
            x = inputs_for(cls, F, torch.Generator().manual_seed(3), dtype)
            if op in ("forward", "deepcopy"):
                tw(x)
                copy.deepcopy(tw)
            elif op == "inverse":
                tw.inverse(x)
            elif op == "fwd_bwd_twice":
                for _ in range(2):
                    xx = x.clone().requires_grad_(True)
                    o, l = tw(xx)
                    (o.sum() + l.sum()).backward()
            elif op == "train_step":
                tw.train()
                o, l = tw(x)
                (o.sum() + l.sum()).backward()
        except Exception:
            twin_ok = False
        r.ev()
        if twin_ok:
            r.viol("raises", "%s with caching raises where the uncached transform works" % cls, history=hist, state=before,
                   op=op, exc=repr(e)[:200], exc_type=type(e).__name__)
            return False
        r.count("both_raise")
        return False
    return True


def summarize(results):
    st, tr = set(), set()
    for res in results:
        st.update(res.get("states", []))
        tr.update(res.get("transitions", []))
    return {"states": len(st), "transitions": len(tr), "abstract_states_list": sorted(st)[:40]}
