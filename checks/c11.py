"""C11 - linear-family accessors all describe one and the same affine map.

Monitor: algebraic cross-checks between the REAL accessors and passes of every parameterisation:
 forward(x) = x W^T + b, inverse(y) = (y - b) W^-T, weight_inverse() W = I, logabsdet() = log|det W|,
 the combined accessors equal the separate ones, pass log-dets = +-logabsdet(), Householder matrix orthogonal.
Exhaustive grid over classes x features 1..6 x Householder counts 1..2f+3 x init modes x parameter policies
(incl. tiny-norm reflection vectors), in float64, float32 and the .double()-converted world."""
import itertools

import numpy as np
import torch

from vf import env
from vf.result import R

RULE = ("case = (class, features, #householder, init flags, cache flag, parameter policy, dtype world); evaluations = accessor "
        "identities checked; a cell is non-trivial when W is not the identity matrix (or, for fresh identity inits, when the "
        "usability clause - finite, invertible, cond < 1e8 - was what was checked)")
ASSUMPTIONS = ["torch.linalg.slogdet / inv / cond in float64 are the reference", "tolerance 1e-9 * cond(W) in float64, 2e-4 * cond in float32"]
REQUIRED_COUNTS = ["accessor_identities", "pass_vs_matrix_checks", "constructions"]
BUDGET = {"case_timeout": {"quick": 300, "thorough": 1800}}


def grid(tier):
    out = []
    F = range(1, 7)
    for f in F:
        for cache in (False, True):
            for idinit in (True, False):
                out.append({"cls": "lu", "f": f, "cache": cache, "idinit": idinit})
                out.append({"cls": "conv", "f": f, "cache": cache, "idinit": idinit})
            for orth in (True, False):
                out.append({"cls": "naive", "f": f, "cache": cache, "orth": orth})
            for nh in range(1, 2 * f + 4):
                out.append({"cls": "qr", "f": f, "cache": cache, "nh": nh})
                out.append({"cls": "householder", "f": f, "cache": False, "nh": nh}) if not cache else None
                if nh % 2 == 0:
                    for idinit in (True, False):
                        out.append({"cls": "svd", "f": f, "cache": cache, "nh": nh, "idinit": idinit})
    return out


POLICIES = ["fresh", "randn0.3", "randn1", "randn3", "tiny_q", "zero_ish"]


def gen_cases(tier, seed):
    g = grid(tier)
    cases = []
    worlds = ["f64", "f32", "dbl"]
    k = 0
    for cfg in g:
        for pi, pol in enumerate(POLICIES):
            if tier == "quick" and (k + pi) % 3 and pol not in ("fresh",):
                k += 1
                continue
            k += 1
            w = worlds[(k + pi) % 3] if pol not in ("randn3", "tiny_q") or (k % 2) else "f64"
            for rep in range(1 if tier == "quick" else 40):
                cases.append({"cfg": cfg, "policy": pol, "mode": worlds[(k + pi + rep) % 3] if rep else w,
                              "world": "f64" if w == "f64" else "f32", "seed": env.subseed(seed, "c11", cfg, pol, rep), "cost": 1})
    # reflection vectors of very small norm in single precision, for every class built on a Householder sequence (a reflection
    # depends on the direction of its vector only; anything added to the squared norm "for safety" shows here)
    for ci, cfg in enumerate(g):
        if cfg["cls"] in ("householder", "qr", "svd") and (tier != "quick" or ci % 3 == 0):
            cases.append({"cfg": cfg, "policy": "tiny_q", "mode": "f32", "world": "f32", "seed": env.subseed(seed, "c11tinyq", ci), "cost": 1})
    # wide layers whose determinant leaves the floating range while its logarithm does not (all worlds)
    for f in (96, 128):
        for cls, extra in (("naive", {"orth": True}), ("lu", {"idinit": True}), ("conv", {"idinit": True}),
                           ("qr", {"nh": 4}), ("svd", {"nh": 4, "idinit": True})):
            for wi, w in enumerate(worlds):
                for pol in ("shrink", "grow"):
                    cases.append({"cfg": dict({"cls": cls, "f": f, "cache": bool(wi % 2)}, **extra), "policy": pol, "mode": w,
                                  "world": "f64" if w == "f64" else "f32", "seed": env.subseed(seed, "c11w", cls, f, w, pol), "cost": 1})
    # bundle to reduce process overhead
    bund = []
    per = 40
    for i in range(0, len(cases), per):
        bund.append({"bundle": cases[i:i + per], "world": "f64", "seed": env.subseed(seed, "c11b", i), "cost": 1})
    return bund


def make(cfg):
    from nflows import transforms as T
    c, f = cfg["cls"], cfg["f"]
    if c == "lu":
        return T.LULinear(f, using_cache=cfg["cache"], identity_init=cfg["idinit"])
    if c == "conv":
        return T.OneByOneConvolution(f, using_cache=cfg["cache"], identity_init=cfg["idinit"])
    if c == "naive":
        return T.NaiveLinear(f, orthogonal_initialization=cfg["orth"], using_cache=cfg["cache"])
    if c == "qr":
        return T.QRLinear(f, num_householder=cfg["nh"], using_cache=cfg["cache"])
    if c == "svd":
        return T.SVDLinear(f, num_householder=cfg["nh"], using_cache=cfg["cache"], identity_init=cfg["idinit"])
    return T.HouseholderSequence(f, cfg["nh"])


def apply_policy(m, pol, g):
    if pol == "fresh":
        return
    with torch.no_grad():
        for name, p in m.named_parameters():
            leaf = name.split(".")[-1]
            if pol.startswith("randn"):
                s = float(pol[5:])
                if leaf == "q_vectors":
                    p.copy_(torch.randn(p.shape, generator=g) * s + 0.05)
                elif leaf == "_weight":
                    p.copy_(torch.randn(p.shape, generator=g) * s + torch.eye(p.shape[0]))
                else:
                    p.copy_(torch.randn(p.shape, generator=g) * s)
            elif pol == "tiny_q":
                if leaf == "q_vectors":
                    scale = 10.0 ** float(torch.randint(-5, -1, (1,), generator=g))
                    p.copy_(torch.randn(p.shape, generator=g) * scale)
                elif leaf == "_weight":
                    p.copy_(torch.randn(p.shape, generator=g) + torch.eye(p.shape[0]))
                else:
                    p.copy_(torch.randn(p.shape, generator=g) * 0.5)
            elif pol in ("shrink", "grow"):
                sgn = -1.0 if pol == "shrink" else 1.0
                if leaf == "_weight":
                    p.mul_(0.2 if pol == "shrink" else 5.0)
                elif leaf in ("unconstrained_upper_diag", "unconstrained_diagonal"):
                    p.add_(sgn * 1.6 + 0.1 * torch.randn(p.shape, generator=g))
                elif leaf == "log_upper_diag":
                    p.add_(sgn * 1.3 + 0.1 * torch.randn(p.shape, generator=g))
                elif leaf in ("lower_entries", "upper_entries"):
                    p.copy_(0.01 * torch.randn(p.shape, generator=g))
            elif pol == "zero_ish":
                if leaf in ("q_vectors", "_weight"):
                    continue
                p.zero_()


def run_case(case):
    r = R(case)
    for sub in case["bundle"]:
        run_one(r, sub)
    r.case = {"bundle_size": len(case["bundle"]), "first": case["bundle"][0], "seed": case["seed"], "world": "f64",
              "bundle": case["bundle"]}
    return r.done()


def run_one(r, case):
    cfg, pol, mode = case["cfg"], case["policy"], case["mode"]
    cls, f = cfg["cls"], cfg["f"]
    torch.set_default_dtype(torch.float64 if mode == "f64" else torch.float32)
    torch.manual_seed(case["seed"])
    g = torch.Generator().manual_seed(case["seed"])
    det = dict(cfg=cfg, policy=pol, mode=mode)
    try:
        m = make(cfg)
        r.count("constructions")
    except Exception as e:
        r.ev()
        r.viol("construct", "%s constructor raises for an accepted size / init mode" % cls, exc=repr(e)[:200], **det)
        return
    apply_policy(m, pol, g)
    if mode == "dbl":
        try:
            m = m.double()
        except Exception as e:
            r.viol("double", "%s.double() raises" % cls, exc=repr(e)[:200], **det)
            return
    m.eval()
    dt = torch.float64 if mode in ("f64", "dbl") else torch.float32
    eps_tol = 1e-9 if dt == torch.float64 else 2e-4

    def chk(ok_, kind, mech, **extra):
        r.ev()
        r.count("accessor_identities")
        if not ok_:
            r.viol(kind, mech, **dict(det, **extra))

    try:
        with torch.no_grad():
            if cls == "householder":
                Q = m.matrix()
                chk(Q.dtype == dt, "dtype", "householder matrix() dtype differs from the parameters'", got=str(Q.dtype))
                Q64 = Q.double()
                I = torch.eye(f, dtype=torch.float64)
                err = float((Q64 @ Q64.t() - I).abs().max())
                r.worst("orth_err/tol", err / (eps_tol * 10))
                chk(torch.isfinite(Q).all() and err <= eps_tol * 10, "not_orthogonal", "householder sequence is not orthogonal",
                    err=err)
                x = torch.randn(5, f, generator=g).to(dt)
                y, l = m(x)
                r.count("pass_vs_matrix_checks")
                chk(float((y.double() - x.double() @ Q64.t()).abs().max()) <= eps_tol * 10 * (1 + float(x.abs().max())),
                    "forward_vs_matrix", "householder forward(x) != x Q^T")
                xb, lb = m.inverse(y)
                chk(float((xb - x).abs().max()) <= eps_tol * 100 * (1 + float(x.abs().max())), "inverse", "householder inverse(forward(x)) != x")
                chk(float(l.abs().max()) == 0 and float(lb.abs().max()) == 0, "lad", "householder logabsdet != 0")
                if not torch.allclose(Q64, I, atol=1e-12):
                    r.cell(cls, f, cfg["nh"], pol, mode)
                else:
                    r.cell(cls, f, cfg["nh"], pol, mode, "identity-init")
                return
            W = m.weight()
            Wi = m.weight_inverse()
            lad = m.logabsdet()
            W2, lad2 = m.weight_and_logabsdet()
            Wi3, lad3 = m.weight_inverse_and_logabsdet()
            b = m.bias
            for nm, t in (("weight", W), ("weight_inverse", Wi), ("logabsdet", lad)):
                chk(t.dtype == dt, "dtype", "%s %s() dtype differs from the parameters'" % (cls, nm), got=str(t.dtype))
                chk(bool(torch.isfinite(t).all()), "nonfinite", "%s %s() is not finite" % (cls, nm))
            W64, Wi64 = W.double(), Wi.double()
            I = torch.eye(f, dtype=torch.float64)
            cond = float(torch.linalg.cond(W64))
            tol = eps_tol * max(1.0, cond)
            if pol == "fresh":
                chk(cond < 1e8, "unusable_init", "%s fresh initialisation is (nearly) singular" % cls, condW=cond)
            if not cond < 1e10:
                r.count("skipped_illconditioned")
                return
            e1 = float((Wi64 @ W64 - I).abs().max())
            r.worst("inverse_err/tol", e1 / tol)
            chk(e1 <= tol, "inverse_mismatch", "%s weight_inverse() is not the inverse of weight()" % cls, err=e1, condW=cond)
            ref = float(torch.linalg.slogdet(W64)[1])
            e2 = abs(float(lad) - ref)
            r.worst("logabsdet_err/tol", e2 / (tol * (1 + abs(ref))))
            chk(e2 <= tol * (1 + abs(ref)), "logabsdet_mismatch", "%s logabsdet() != log|det weight()|" % cls, got=float(lad), ref=ref)
            chk(float((W2.double() - W64).abs().max()) <= tol and abs(float(lad2) - ref) <= tol * (1 + abs(ref)),
                "combined_mismatch", "%s weight_and_logabsdet() disagrees with weight() / logabsdet()" % cls,
                lad_combined=float(lad2), lad=float(lad))
            chk(float((Wi3.double() - Wi64).abs().max()) <= tol * (1 + float(Wi64.abs().max())) and abs(float(lad3) - ref) <= tol * (1 + abs(ref)),
                "combined_inverse_mismatch", "%s weight_inverse_and_logabsdet() disagrees with weight_inverse() / logabsdet()" % cls,
                lad_combined=float(lad3), lad=float(lad))
            # passes
            if cls == "conv":
                x = torch.randn(3, f, 2, 2, generator=g).to(dt)
                perm = m.permutation._permutation
                xp = x[:, perm]
                expect = torch.einsum("ij,bjhw->bihw", W64, xp.double()) + b.double().view(1, -1, 1, 1)
                hw = 4
            else:
                x = torch.randn(5, f, generator=g).to(dt)
                expect = x.double() @ W64.t() + b.double()
                hw = 1
            for rep in range(2):       # second round exercises the filled cache
                y, l = m(x)
                r.count("pass_vs_matrix_checks")
                sc = 1 + float(expect.abs().max())
                chk(float((y.double() - expect).abs().max()) <= tol * sc * 10, "forward_vs_matrix",
                    "%s forward(x) != x W^T + b with W = weight()" % cls, round=rep)
                chk(float((l.double() - hw * ref).abs().max()) <= tol * (1 + abs(ref)) * hw, "forward_lad",
                    "%s forward logabsdet != logabsdet()" % cls, got=float(l[0]), ref=hw * ref, round=rep)
                xb, lb = m.inverse(y)
                chk(float((xb - x).abs().max()) <= tol * 100 * (1 + float(x.abs().max())), "inverse_pass",
                    "%s inverse(forward(x)) != x" % cls, round=rep)
                chk(float((lb.double() + hw * ref).abs().max()) <= tol * (1 + abs(ref)) * hw, "inverse_lad",
                    "%s inverse logabsdet != -logabsdet()" % cls, got=float(lb[0]), ref=-hw * ref, round=rep)
                if cls != "conv":
                    exp_inv = (y.double() - b.double()) @ Wi64.t()
                    chk(float((xb.double() - exp_inv).abs().max()) <= tol * 100 * (1 + float(exp_inv.abs().max())),
                        "inverse_vs_matrix", "%s inverse(y) != (y - b) W^-T with weight_inverse()" % cls, round=rep)
            if not torch.allclose(W64, I, atol=1e-12):
                r.cell(cls, f, cfg.get("nh", "-"), pol, mode, cfg["cache"])
            else:
                r.cell(cls, f, cfg.get("nh", "-"), pol, mode, "identity-init")
    except Exception as e:
        r.ev()
        r.viol("raises", "%s accessor / pass raises" % cls, exc=repr(e)[:300], exc_type=type(e).__name__, **det)
    finally:
        r.sample({"cfg": cfg, "policy": pol, "mode": mode})
