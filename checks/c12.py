"""C12 - batch items are evaluated independently in evaluation mode.

Monitor: metamorphic oracle over pairs of executions of the real code.  For a batch X (context C) the results of
forward / inverse (transforms), log_prob / transform_to_noise (flows) and log_prob (distributions) are compared
with: every row evaluated alone (batch size 1); a random permutation of the batch; row i embedded among different
companions (in-domain but extreme values: at / beyond the tail bounds, end-points, large magnitudes, so that the
inside/outside masks differ); duplicated rows.  Every variant runs on a FRESH deep copy of a never-called model, so
state smuggled from one call into the next (e.g. data-dependent initialisation in eval mode) is visible as well."""
import copy

import numpy as np
import torch

from vf import env, zoo, dzoo
from vf.result import R

RULE = ("subject = transform family x configuration x parameter policy (incl. never-initialised ActNorm in eval mode), flows "
        "(generic composites over the zoo, MaskedAutoregressiveFlow, SimpleRealNVP) and distributions; one evaluation = one variant "
        "execution compared row-wise with the whole-batch execution; a cell (subject family, operation, variant, 2-D/image) is "
        "non-trivial when the compared rows are not all equal to each other (the result really depends on the row)")
ASSUMPTIONS = ["float64 world; tolerance 1e-9*(1+|value|) (batch-size dependent BLAS / SIMD rounding is ~1e-16, mixing bugs are O(1))",
               "evaluation mode only, as the property states"]
REQUIRED_COUNTS = ["row_alone_checks", "permutation_checks", "companion_checks", "fresh_copy_variants"]
BUDGET = {"case_timeout": {"quick": 300, "thorough": 2400}}
TOL = 1e-7


def gen_cases(tier, seed):
    rng = np.random.default_rng(seed + 21)
    cases = []
    nrand = 3 if tier == "quick" else 150
    for fam in zoo.ALL_FAMS:
        cfgs = zoo.configs([fam], tier, seed + 5, nrand)
        for ci, cfg in enumerate(cfgs):
            pol = ["randn1", "fresh", "randn0.3", "zero"][ci % 4]
            if "umnn" in fam and pol == "zero":
                pol = "fresh"
            nowarm = fam == "actnorm" and ci % 2 == 0
            if nowarm:
                pol = "fresh"        # a never-initialised ActNorm put straight into eval mode
            cases.append({"kind": "transform", "cfg": cfg, "policy": pol, "warm": not nowarm,
                          "seed": env.subseed(seed, "c12", fam, ci), "world": "f64",
                          "cost": 8 if "umnn" in fam else 2})
            if "actnorm" in str(cfg) and fam != "actnorm":
                cases.append(dict(cases[-1], warm=False, policy="fresh"))
    # scalar events: a batch of shape [N] (nothing to reduce per row - a reduction over "all remaining" axes sums the batch)
    for fi, fam in enumerate(("exp", "tanh", "sigmoid", "leakyrelu", "cauchycdf", "logtanh", "logit", "cauchycdfinv")):
        cfg = dict(zoo.FAM[fam].must()[0], shape=[])
        cases.append({"kind": "transform", "cfg": cfg, "policy": "fresh", "warm": True, "seed": env.subseed(seed, "c12s", fam),
                      "world": "f64", "cost": 1})
        cases.append({"kind": "transform", "cfg": {"fam": "composite", "shape": [], "ctx": 0, "parts": [cfg, dict(zoo.FAM["leakyrelu"].must()[0], shape=[])]},
                      "policy": "fresh", "warm": True, "seed": env.subseed(seed, "c12sc", fam), "world": "f64", "cost": 1})
    # conditioners with dropout / batch norm inside (library residual nets, 2-D and image): off in evaluation mode
    k = 0
    for fam in ("coupling_affine", "coupling_rq", "ar_affine"):
        for image in ((False, True) if fam.startswith("coupling") else (False,)):
            for opt in ({"dropout": 0.3}, {"net_bn": True}, {"dropout": 0.5, "net_bn": True}):
                cfg = None
                for _ in range(50):
                    cfg = zoo.FAM[fam].sample_cfg(rng, tier)
                    if (len(cfg["shape"]) == 3) == image:
                        break
                cfg = dict(cfg, **opt)
                if "net" in cfg:
                    cfg["net"] = "resnet"
                cases.append({"kind": "transform", "cfg": cfg, "policy": "randn1", "warm": True,
                              "seed": env.subseed(seed, "c12do", k), "world": "f64", "cost": 2})
                k += 1
    for i in range(40 if tier == "quick" else 4000):
        cases.append({"kind": "flow", "cfg": dzoo.sample_flow_cfg(rng), "seed": env.subseed(seed, "c12f", i), "world": "f64",
                      "warm": i % 3 != 0, "cost": 3})
    for i in range(30 if tier == "quick" else 2000):
        cases.append({"kind": "dist", "cfg": dzoo.sample_dist_cfg(rng), "seed": env.subseed(seed, "c12d", i), "world": "f64",
                      "cost": 1})
    # batch-normalised MADE mixtures in every block type (the only library distribution with batch statistics inside)
    k = 0
    for res, rm in ((True, False), (False, False), (False, True)):
        for ctx in (0, 2):
            for blocks in (1, 2):
                cases.append({"kind": "dist", "cfg": {"dist": "mademog", "features": 2 + k % 2, "hidden": 8, "ctx": ctx, "comps": 1 + k % 3,
                                                      "blocks": blocks, "residual": res, "random_mask": rm, "narrow": False, "bn": True},
                              "seed": env.subseed(seed, "c12bn", k), "world": "f64", "cost": 1})
                k += 1
    return cases


def close(a, b, tol=None):
    tol = tol or TOL
    if a.shape != b.shape:
        return False, None
    fin = torch.isfinite(a) & torch.isfinite(b)
    if not torch.equal(torch.isfinite(a), torch.isfinite(b)):
        return False, float("inf")
    if not fin.any():
        return True, 0.0
    err = ((a - b).abs() / (1 + b.abs()))[fin].max()
    return bool(err <= tol), float(err)


def run_case(case):
    r = R(case)
    kind = case["kind"]
    seed = case["seed"]
    B = 5 + seed % 4
    try:
        if kind == "transform":
            cfg = case["cfg"]
            me = zoo.meta(cfg)
            model0 = zoo.make(cfg, case["policy"], seed, do_warm=case["warm"])
            label = cfg["fam"]
            x = zoo.sample_inputs(me, B, seed + 1, structured="many")
            ctx = zoo.sample_context(me, B, seed + 2)
            companions = zoo.sample_inputs(me, B, seed + 3, structured="many", scale=3.0)
            img = len(me["shape"]) == 3
            ops = [("forward", lambda m, z, c: m.forward(z, c), x, companions)]
            with torch.no_grad():
                try:
                    # piecewise-LINEAR maps: exactly on a knot the inverse may legitimately take either adjacent slope and
                    # which one it takes can flip with 1e-16 rounding differences -> keep inverse inputs off the knots
                    # (the same holds at the tail junction of the linear, quadratic and cubic splines, whose derivative jumps
                    # there - only the rational-quadratic spline is C1 at its tail bound: inside a composite the value handed to
                    # such a part differs by 1e-16 between batch sizes and falls on either side of the junction)
                    xi_src = zoo.sample_inputs(me, B, seed + 1, structured=False) if (
                        "spline_linear" in me["tags"] or "kink" in me["tags"]) else x
                    y = copy.deepcopy(model0)(xi_src, ctx)[0]
                    yc = copy.deepcopy(model0)(companions, ctx)[0]
                    if me["dom_out"][0] == "box":
                        y, yc = y.clamp(me["dom_out"][1], me["dom_out"][2]), yc.clamp(me["dom_out"][1], me["dom_out"][2])
                    if torch.isfinite(y).all() and torch.isfinite(yc).all():
                        ops.append(("inverse", lambda m, z, c: m.inverse(z, c), y, yc))
                except Exception:
                    pass
        elif kind == "flow":
            cfg = case["cfg"]
            model0 = dzoo.build_flow(cfg, seed)
            if case["warm"]:
                dzoo.warm_flow(model0, cfg, seed)
            model0.eval()
            label = "flow_" + cfg["flow"]
            x, ctx = dzoo.flow_inputs(cfg, B, seed + 1)
            companions = dzoo.flow_inputs(cfg, B, seed + 3)[0] * 4
            img = False
            ops = [("log_prob", lambda m, z, c: (m.log_prob(z, c),), x, companions),
                   ("transform_to_noise", lambda m, z, c: (m.transform_to_noise(z, c),), x, companions)]
        else:
            cfg = case["cfg"]
            model0 = dzoo.build_dist(cfg, seed)
            model0.eval()
            label = "dist_" + cfg["dist"]
            x, ctx = dzoo.dist_inputs(cfg, B, seed + 1)
            companions = dzoo.dist_inputs(cfg, B, seed + 3)[0]
            if not dzoo.dist_meta(cfg)["discrete"]:
                companions = companions * 4
            img = False
            ops = [("log_prob", lambda m, z, c: (m.log_prob(z, c),), x, companions)]
    except Exception as e:
        r.inconc("subject construction failed: %r" % (e,))
        return r.done()

    g = torch.Generator().manual_seed(seed + 9)
    det = dict(subject=label, cfg=cfg, policy=case.get("policy"), warm=case.get("warm"))
    for opname, fn, X, COMP in ops:
        def run(z, c):
            m = copy.deepcopy(model0)          # never-called copy for every variant
            r.count("fresh_copy_variants")
            with torch.no_grad():
                return [t.detach() for t in fn(m, z, c)]
        try:
            base = run(X, ctx)
        except Exception as e:
            r.count("base_call_raised")
            r.sample({"subject": label, "op": opname, "error": repr(e)[:200]})
            # a batch that fails while each of its rows alone is fine depends on "which other rows are present" as much as a
            # batch that returns other numbers
            try:
                for i in range(B):
                    run(X[i:i + 1], ctx[i:i + 1] if ctx is not None else None)
            except Exception:
                continue
            r.ev()
            r.viol("batch_dependence", "%s.%s row results depend on the rest of the batch" % (label, opname), variant="batch raises, every row "
                   "alone succeeds", exc=repr(e)[:200], exc_type=type(e).__name__, batch=B, **det)
            continue
        if any(t.shape[0] != B for t in base):
            r.viol("shape", "%s.%s result does not have one row per batch item" % (label, opname),
                   shapes=[list(t.shape) for t in base], batch=B, **det)
            continue
        varies = any(bool((t[0:1] != t).any()) for t in base)

        def compare(variant, got, rows_base, rows_got, extra):
            for k, (t_base, t_got) in enumerate(zip(base, got)):
                # UMNN's inverse is a 25-step bisection: a 1e-16 difference can flip its last decision (declared 1e-5)
                ok, err = close(t_got[rows_got], t_base[rows_base], 2e-5 if ("umnn" in label and opname == "inverse") else None)
                r.worst("row_err/tol", (err or 0.0) / TOL if err is not None else 0.0)
                if not ok:
                    r.viol("batch_dependence", "%s.%s row results depend on the rest of the batch" % (label, opname),
                           variant=variant, result_index=k, err=err, **dict(det, **extra))
                    return False
            return True

        ok_all = True
        # (a) every row alone, batch size 1
        for i in range(B):
            try:
                got = run(X[i:i + 1], ctx[i:i + 1] if ctx is not None else None)
            except Exception as e:
                r.viol("raises_on_single_row", "%s.%s raises for a batch of one row that is fine inside a batch" % (label, opname),
                       exc=repr(e)[:200], **det)
                ok_all = False
                break
            r.ev()
            r.count("row_alone_checks")
            if not compare("row_alone", got, slice(i, i + 1), slice(0, 1), {"row": i}):
                ok_all = False
                break
        # (b) permutation
        perm = torch.randperm(B, generator=g)
        try:
            got = run(X[perm], ctx[perm] if ctx is not None else None)
            r.ev()
            r.count("permutation_checks")
            ok_all &= compare("permutation", got, perm, slice(None), {"perm": perm.tolist()})
        except Exception as e:
            r.viol("raises_on_permutation", "%s.%s raises on a permuted batch" % (label, opname), exc=repr(e)[:200], **det)
        # (c) row i among different companions, (e) duplicates
        for i in (0, B - 1):
            Z = COMP.clone()
            Z[i] = X[i]
            Z[(i + 1) % B] = X[i]           # duplicate of row i
            try:
                got = run(Z, ctx if ctx is None else torch.cat([ctx[i:i + 1]] * B, 0) if False else _ctx_for(ctx, i, B))
            except Exception:
                r.count("companion_call_raised")
                continue
            r.ev()
            r.count("companion_checks")
            ok_all &= compare("companions", got, slice(i, i + 1), slice(i, i + 1), {"row": i})
            j = (i + 1) % B
            for t in got:
                okd, errd = close(t[j:j + 1], t[i:i + 1])
                if not okd:
                    r.viol("duplicates_differ", "%s.%s gives different results for duplicated rows" % (label, opname),
                           err=errd, **det)
            # (c') one companion row far outside the range of ordinary data (the whole real line is the domain): anything
            #      adapted to the extreme values of the BATCH (search brackets, rescaling, early exits) moves the other rows
            if kind == "transform" and (me["dom_out"] if opname == "inverse" else me["dom_in"])[0] == "R" and Z.is_floating_point():
                Zf = Z.clone()
                jf = (i + 2) % B
                Zf[jf] = torch.where(Z[jf] >= 0, torch.full_like(Z[jf], 100.0), torch.full_like(Z[jf], -100.0))
                try:
                    gotf = run(Zf, _ctx_for(ctx, i, B))
                except Exception:
                    r.count("far_companion_call_raised")
                else:
                    r.ev()
                    r.count("far_companion_checks")
                    ok_all &= compare("far_companion", gotf, slice(i, i + 1), slice(i, i + 1), {"row": i, "far_row": jf})
        # (g) the same batch in another memory layout (feature-major storage as produced by `data.T`, channels-last images, a strided
        #     slice of a larger array): results scattered through a flattened COPY of a non-contiguous tensor get lost for batches
        #     but not for single rows
        lays = []
        if X.dim() == 2 and X.shape[1] > 1:
            lays.append(("feature_major", X.t().contiguous().t()))
        if X.dim() == 4:
            lays.append(("channels_last", X.contiguous(memory_format=torch.channels_last)))
            lays.append(("transposed_hw", X.transpose(2, 3).contiguous().transpose(2, 3)))
        if X.dim() >= 2:
            big = torch.zeros((2 * X.shape[0],) + tuple(X.shape[1:]), dtype=X.dtype)
            big[::2] = X
            lays.append(("strided_rows", big[::2]))
        for lname, XL in lays:
            try:
                got = run(XL, ctx)
            except Exception as e:
                r.viol("raises_on_layout", "%s.%s raises for the same batch in another memory layout" % (label, opname), layout=lname,
                       exc=repr(e)[:200], **det)
                continue
            r.ev()
            r.count("layout_checks")
            ok_all &= compare("layout:" + lname, got, slice(None), slice(None), {"layout": lname})
        # (f) the way a user compares: ONE object, the batch first and then its rows one at a time (an evaluation that
        #     drifts with every call - statistics updated in evaluation mode - shows here and not on fresh copies)
        try:
            shared = copy.deepcopy(model0)
            with torch.no_grad():
                full = [t.detach() for t in fn(shared, X, ctx)]
                for i in range(B):
                    got_i = [t.detach() for t in fn(shared, X[i:i + 1], ctx[i:i + 1] if ctx is not None else None)]
                    r.ev()
                    r.count("same_object_row_checks")
                    for k, (tf, tg) in enumerate(zip(full, got_i)):
                        okk, errk = close(tg[0:1], tf[i:i + 1], 2e-5 if ("umnn" in label and opname == "inverse") else None)
                        if not okk:
                            r.viol("batch_dependence", "%s.%s row results depend on the rest of the batch" % (label, opname),
                                   variant="same_object_batch_then_rows", result_index=k, err=errk, row=i, **det)
                            ok_all = False
                            raise StopIteration
        except StopIteration:
            pass
        except Exception:
            r.count("same_object_call_raised")
        if varies and ok_all:
            r.cell(label, opname, "img" if img else "2d", "ctx" if ctx is not None else "noctx",
                   "warm" if case.get("warm", True) else "uninitialised")
    r.sample({"subject": label, "batch": B, "ops": [o[0] for o in ops]})
    return r.done()


def _ctx_for(ctx, i, B):
    """context for the companion batch: row i and its duplicate keep context row i, the others keep their own"""
    if ctx is None:
        return None
    c = ctx.clone()
    c[(i + 1) % B] = ctx[i]
    return c
