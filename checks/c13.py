"""C13 - evaluation is free of side effects on arguments and on the model.

Monitors
 (a) write-watch: a TorchDispatchMode sees every ATen op a public call executes; an op whose schema marks an argument
     as written and whose written tensor shares storage with a protected tensor (caller inputs / context - also given
     as slices of a larger tensor, non-contiguous views, requires_grad leaves - and every parameter and buffer) is a
     violation in eval mode; in training mode only the documented statistics may be written;
 (b) bitwise snapshots before/after (also of the storage surrounding a view; catches `.data =` rebinding);
 (c) history independence: in eval mode every call of a random call sequence (mixed operations, mixed event shapes
     for the shape-agnostic transforms) must return bit-identical results to the same call on a fresh, never-called
     deep copy of the model (sampling under a re-seeded RNG)."""
import copy

import numpy as np
import torch

from vf import env, zoo, dzoo
from vf.result import R
from vf.monitors import writewatch as ww

RULE = ("subject = transform family x configuration / flow / distribution, x mode (eval, train) x input layout (plain, slice of a "
        "larger tensor, non-contiguous, requires_grad) x a random call sequence of length 3-7; one evaluation = one public call "
        "executed under the write-watch; a cell (subject family, operation, mode, layout) is non-trivial when the call executed "
        ">= 1 ATen op and at least one in-place write on unprotected intermediates was observed somewhere in the case or the "
        "result depended on the inputs")
ASSUMPTIONS = ["torch ATen schemas declare written arguments correctly", "allowed training-mode writes: running statistics of nflows' and "
               "torch's batch norms, ActNorm's log_scale/shift/initialized on its first training forward"]
REQUIRED_COUNTS = ["calls_watched", "aten_ops_seen", "fresh_copy_comparisons"]
BUDGET = {"case_timeout": {"quick": 300, "thorough": 2400}}

SHAPE_AGNOSTIC = {"exp", "tanh", "logtanh", "leakyrelu", "sigmoid", "logit", "cauchycdf", "cauchycdfinv", "identity"}


def gen_cases(tier, seed):
    rng = np.random.default_rng(seed + 33)
    cases = []
    nrand = 2 if tier == "quick" else 120
    for fam in zoo.ALL_FAMS:
        cfgs = zoo.configs([fam], tier, seed + 9, nrand)
        for ci, cfg in enumerate(cfgs):
            for mode in ("eval", "train"):
                if tier == "quick" and mode == "train" and ci % 2:
                    continue
                pol = ["randn1", "fresh", "randn0.3"][ci % 3]
                cases.append({"kind": "transform", "cfg": cfg, "policy": pol, "mode": mode,
                              "seed": env.subseed(seed, "c13", fam, ci, mode), "world": "f64",
                              "cost": 8 if "umnn" in fam else 2})
            if fam in ("actnorm", "batchnorm", "composite", "inverse", "multiscale") or "actnorm" in str(cfg) or "batchnorm" in str(cfg):
                # evaluation of a model that never saw a training pass (data-dependent initialisation still pending)
                cases.append({"kind": "transform", "cfg": cfg, "policy": "fresh", "mode": "eval", "cold": True,
                              "seed": env.subseed(seed, "c13cold", fam, ci), "world": "f64", "cost": 2})
    for i in range(40 if tier == "quick" else 3000):
        for mode in ("eval", "train"):
            cases.append({"kind": "flow", "cfg": dzoo.sample_flow_cfg(rng), "mode": mode, "seed": env.subseed(seed, "c13f", i, mode),
                          "world": "f64", "cost": 4, "cold": bool(mode == "eval" and i % 4 == 3)})
    for i in range(80 if tier == "quick" else 4000):
        cases.append({"kind": "dist", "cfg": dzoo.sample_dist_cfg(rng), "mode": "eval" if i % 2 else "train",
                      "seed": env.subseed(seed, "c13d", i), "world": "f64", "cost": 1})
    # conditioners with dropout / batch norm (feed-forward and residual masked blocks, residual nets): evaluation mode
    k = 0
    for fam in ("ar_affine", "ar_rq", "coupling_affine"):
        for res in (False, True):
            for opt in ({"dropout": 0.3}, {"dropout": 0.5, "net_bn": True}):
                cfg = zoo.FAM[fam].sample_cfg(rng, tier)
                cfg.update(opt)
                if fam.startswith("ar_"):
                    cfg["residual"] = res
                    cfg["random_mask"] = False
                    cfg["blocks"] = max(cfg["blocks"], 1)
                    if res:
                        cfg["hidden"] = max(cfg["hidden"], cfg["shape"][0])
                else:
                    cfg["net"] = "resnet"
                cases.append({"kind": "transform", "cfg": cfg, "policy": "randn1", "mode": "eval",
                              "seed": env.subseed(seed, "c13do", k), "world": "f64", "cost": 2})
                k += 1
    # first training-mode call of a never-initialised ActNorm (data-dependent initialisation reads the batch - it must not
    # write to it) on image layouts whose channels-last flattening is a VIEW of the caller's tensor: one channel, 1x1 images
    for i, shp in enumerate(([1, 3, 3], [3, 1, 1], [2, 2, 2], [4], [1, 1, 1])):
        for wrap in (False, True):
            cfg = {"fam": "actnorm", "shape": shp}
            if wrap:
                cfg = {"fam": "composite", "shape": shp, "ctx": 0, "parts": [cfg]}
            cases.append({"kind": "transform", "cfg": cfg, "policy": "fresh", "mode": "train", "cold": True,
                          "seed": env.subseed(seed, "c13coldtrain", i, wrap), "world": "f64" if i % 2 else "f32", "cost": 1})
    # the repository's own tests as one more workload for the generic clauses (arguments / eval-mode state untouched)
    cases.append({"kind": "suite", "mode": "eval", "seed": env.subseed(seed, "c13suite"), "world": "f32", "cost": 30})
    return cases


def run_suite(case):
    from vf import suite
    r = R(case)
    rec, err = suite.run()
    if rec is None:
        r.inconc("suite workload: %s" % err)
        return r.done()
    r.ev(rec["arg_checks"] + rec["state_checks"])
    r.count("suite_calls_watched", rec["calls"])
    r.count("suite_argument_checks", rec["arg_checks"])
    r.count("suite_eval_state_checks", rec["state_checks"])
    if rec.get("exitstatus"):
        r.count("suite_had_failing_tests")
    for v in rec["violations"]:
        if v["kind"] == "argument_mutated":
            r.viol("argument_mutated", "%s.%s modifies a tensor passed in by the caller" % (v["cls"].split(".")[-1], v["method"]),
                   workload="repository test-suite", test=v.get("test"), argument=v.get("argument"))
        elif v["kind"] == "model_mutated_in_eval":
            r.viol("model_mutated_in_eval", "%s.%s modifies a parameter or buffer in evaluation mode" % (v["cls"].split(".")[-1], v["method"]),
                   workload="repository test-suite", test=v.get("test"), changed=v.get("changed"))
    for k in sorted(rec["classes"]):
        r.cell("suite", k)
    r.sample({"suite_workload": {"calls": rec["calls"], "classes": len(rec["classes"]), "argument_checks": rec["arg_checks"]}})
    return r.done()


def layout(x, kind):
    """Same values, different presentation.  Returns (tensor to pass, dict of tensors to protect)."""
    if x is None:
        return None, {}
    if kind == "slice":
        big = torch.zeros((x.shape[0] + 2,) + tuple(x.shape[1:]), dtype=x.dtype) + 7.0
        big[1:-1] = x
        v = big[1:-1]
        return v, {"arg": v, "arg_base": big}
    if kind == "noncontig" and x.dim() == 4 and x.shape[0] % 2 == 1:
        # channels-last storage (NHWC data handed over as an NCHW tensor): permute(0, 2, 3, 1).reshape(...) of it is a VIEW of the
        # caller's tensor, so anything done in place to such a "flattened copy" lands in the argument
        v = x.contiguous(memory_format=torch.channels_last)
        return v, {"arg": v}
    if kind == "noncontig" and x.dim() >= 2:
        v = x.transpose(0, 1).contiguous().transpose(0, 1)
        return v, {"arg": v}
    if kind == "requires_grad" and x.is_floating_point():
        v = x.clone().requires_grad_(True)
        return v, {"arg": v}
    v = x.clone()
    return v, {"arg": v}


def allowed_names(model, op):
    """names of parameters / buffers a TRAINING-mode call may legitimately write"""
    from nflows.transforms.normalization import BatchNorm, ActNorm
    out = set()
    for mname, m in model.named_modules():
        pre = mname + "." if mname else ""
        if isinstance(m, BatchNorm):
            out |= {pre + "running_mean", pre + "running_var"}
        if isinstance(m, (torch.nn.BatchNorm1d, torch.nn.BatchNorm2d)):
            out |= {pre + "running_mean", pre + "running_var", pre + "num_batches_tracked"}
        if isinstance(m, ActNorm) and not bool(m.initialized):
            out |= {pre + "log_scale", pre + "shift", pre + "initialized"}
    return out


def model_tensors(model):
    d = {}
    for k, v in model.named_parameters():
        d["model." + k] = v
    for k, v in model.named_buffers():
        d["model." + k] = v
    return d


def run_case(case):
    if case["kind"] == "suite":
        return run_suite(case)
    r = R(case)
    kind, mode, seed = case["kind"], case["mode"], case["seed"]
    g = torch.Generator().manual_seed(seed)
    try:
        if kind == "transform":
            cfg = case["cfg"]
            me = zoo.meta(cfg)
            model = zoo.make(cfg, case["policy"], seed, mode="eval", do_warm=not case.get("cold"))
            label = cfg["fam"]
            if cfg["fam"] in ("logit",):
                me = dict(me, dom_in=("box", 0.0, 1.0), special=[0.0, 1.0, 0.5])
            if cfg["fam"] == "sigmoid":
                me = dict(me, dom_out=("box", 0.0, 1.0))

            def mk_inputs(step, alt_shape=False):
                m2 = dict(me)
                if alt_shape:
                    # another event shape the same object legitimately accepts (elementwise maps; a scale of shape (D,)
                    # broadcasts over (N, k, D))
                    if cfg["fam"] == "pointwise_affine" and cfg["kind"] != "scalar":
                        m2["shape"] = [2] + list(me["shape"])
                    else:
                        m2["shape"] = [2, 3] if len(me["shape"]) == 1 else [4]
                x = zoo.sample_inputs(m2, 3 + step % 3, seed + 10 * step, structured="many")
                c = zoo.sample_context(m2, x.shape[0], seed + 10 * step + 1)
                return x, c
            opnames = ["forward", "inverse"]
        elif kind == "flow":
            cfg = case["cfg"]
            model = dzoo.build_flow(cfg, seed, policy="fresh" if case.get("cold") else "randn1")
            if not case.get("cold"):
                dzoo.warm_flow(model, cfg, seed)
            label = "flow_" + cfg["flow"]

            def mk_inputs(step, alt_shape=False):
                return dzoo.flow_inputs(cfg, 3 + step % 3, seed + 10 * step)
            opnames = ["log_prob", "sample", "sample_and_log_prob", "transform_to_noise"]
        else:
            cfg = case["cfg"]
            model = dzoo.build_dist(cfg, seed)
            label = "dist_" + cfg["dist"]
            dm = dzoo.dist_meta(cfg)

            def mk_inputs(step, alt_shape=False):
                return dzoo.dist_inputs(cfg, 3 + step % 3, seed + 10 * step)
            opnames = ["log_prob"] + (["sample", "sample_and_log_prob"] if dm["can_sample"] else []) + (["mean"] if dm["has_mean"] else [])
    except Exception as e:
        r.inconc("subject construction failed: %r" % (e,))
        return r.done()
    model.train(mode == "train")
    if mode == "train" and kind == "flow" and seed % 2 == 0:
        # a partly frozen model (fine-tuning): the last sub-module that owns parameters or buffers stays in evaluation mode
        owners = [m_ for m_ in model.modules() if m_ is not model and (list(m_.parameters(recurse=False)) or list(m_.buffers(recurse=False)))]
        if owners:
            owners[-1].eval()
            owners[len(owners) // 2].eval()
            r.count("mixed_mode_subjects")
    model0 = copy.deepcopy(model) if mode == "eval" else None
    if mode == "eval" and (kind == "dist" or (kind == "flow" and seed % 3 == 1)):
        # a history in another floating precision: the object is first asked about single-precision data (a float64 model promotes,
        # or refuses) - constants it converts "to the dtype of the inputs" and keeps would be single-precision afterwards
        try:
            x32_, c32_ = mk_inputs(40)
            with torch.no_grad():
                model.log_prob(x32_.float() if x32_.is_floating_point() else x32_, None if c32_ is None else c32_.float())
            r.count("single_precision_pre_calls")
        except Exception:
            r.count("single_precision_pre_calls_raised")
    uses_cache = any(getattr(m, "using_cache", False) for m in model.modules())
    nsteps = 3 + seed % 5
    layouts = ["plain", "slice", "noncontig", "requires_grad"]
    total_writes = 0
    held = []
    for step in range(nsteps):
        op = opnames[int(torch.randint(len(opnames), (1,), generator=g))]
        lay = layouts[int(torch.randint(len(layouts), (1,), generator=g))]
        alt = kind == "transform" and step % 2 == 1 and (
            cfg["fam"] in SHAPE_AGNOSTIC or (cfg["fam"] == "pointwise_affine" and (cfg["kind"] == "scalar" or len(cfg["shape"]) == 1)))
        x, c = mk_inputs(step, alt)
        if kind == "transform" and op == "inverse":
            try:
                with torch.no_grad():
                    x = copy.deepcopy(model).eval()(x, c)[0].detach()
                if me["dom_out"][0] == "box":
                    x = x.clamp(me["dom_out"][1], me["dom_out"][2])
            except Exception:
                continue
            if not torch.isfinite(x).all():
                continue
        xv, px = layout(x, lay)
        cv, pc = layout(c, lay if step % 2 else "plain")
        prot = {"inputs." + k: v for k, v in px.items()}
        prot.update({"context." + k: v for k, v in pc.items()})
        mt = model_tensors(model)
        prot.update(mt)
        allow = {"model." + n for n in allowed_names(model, op)} if mode == "train" else set()
        nsamp = 1 if (step + seed) % 2 == 0 else (2, 4, 3)[step % 3]      # one draw per row: repeat_rows returns a view of its argument

        def call(m, xx, cc):
            if op == "forward":
                return m.forward(xx, cc)
            if op == "inverse":
                return m.inverse(xx, cc)
            if op == "log_prob":
                return (m.log_prob(xx, cc),)
            if op == "transform_to_noise":
                return (m.transform_to_noise(xx, cc),)
            if op == "sample":
                return (m.sample(nsamp, cc),) if cc is not None or not _needs_ctx(kind, cfg) else (m.sample(nsamp, cc),)
            if op == "sample_and_log_prob":
                return m.sample_and_log_prob(nsamp, cc)
            if op == "mean":
                return (m.mean(cc),)
        snap = ww.snapshot(prot)
        flags_before = {n_: m_.training for n_, m_ in model.named_modules()}
        watch = ww.WriteWatch(prot, allow=allow)
        torch.manual_seed(seed + step)
        # a third of the calls run with autograd switched off (the usual way of evaluating): buffers that an implementation
        # recycles only "when nobody can need the graph" are recycled here
        nograd = (step + seed) % 3 == 0
        try:
            with watch, torch.set_grad_enabled(not nograd):
                out = call(model, xv, cv)
        except Exception as e:
            r.count("calls_raised")
            r.sample({"subject": label, "op": op, "error": repr(e)[:160]})
            # even a failing call must not have touched the caller's tensors
            ch = [n for n in ww.changed(snap, prot) if n.startswith(("inputs.", "context."))]
            if ch:
                r.viol("argument_mutated", "%s.%s modifies a tensor passed in by the caller" % (label, op), changed=ch,
                       layout=lay, mode=mode, cfg=cfg, failed_call=True)
            continue
        r.ev()
        r.count("calls_watched")
        if nograd:
            r.count("calls_watched_under_no_grad")
        # tensors handed out by EARLIER calls belong to the caller: a later call must not have written to them
        for (hop, hstep, ht, hclone) in held:
            r.count("earlier_result_checks")
            if ht.shape != hclone.shape or not ww.same_bits(ht.detach(), hclone):
                r.viol("earlier_result_overwritten", "%s.%s overwrites a tensor returned by an earlier call on the same object" % (label, op),
                       earlier_op=hop, earlier_step=hstep, subject=label, op=op, mode=mode, step=step, no_grad=nograd, cfg=cfg)
        held[:] = [h for h in held if ww.same_bits(h[2].detach(), h[3])]
        for o_ in out:
            if isinstance(o_, torch.Tensor) and o_.numel():
                held.append((op, step, o_, o_.detach().clone()))
        r.count("aten_ops_seen", watch.ops)
        r.count("inplace_writes_seen", watch.write_ops)
        total_writes += watch.write_ops
        det = dict(subject=label, op=op, mode=mode, layout=lay, step=step, cfg=cfg)
        arg_events = [e for e in watch.events if any(n.startswith(("inputs.", "context.")) for n in e["protected"])]
        mod_events = [e for e in watch.events if e not in arg_events]
        ch = ww.changed(snap, prot)
        arg_changed = [n for n in ch if n.startswith(("inputs.", "context."))]
        mod_changed = [n for n in ch if n.startswith("model.") and n.split(":")[0] not in allow]
        if arg_events or arg_changed:
            r.viol("argument_mutated", "%s.%s modifies a tensor passed in by the caller" % (label, op), changed=arg_changed,
                   write_events=arg_events[:2], **det)
        if mode == "eval" and (mod_events or mod_changed):
            r.viol("model_mutated_in_eval", "%s.%s modifies a parameter or buffer in evaluation mode" % (label, op),
                   changed=mod_changed, write_events=mod_events[:2], **det)
        if mode == "train" and (mod_events or mod_changed):
            r.viol("undocumented_training_write", "%s.%s writes model state other than the documented statistics in training mode"
                   % (label, op), changed=mod_changed, write_events=mod_events[:2], **det)
        # state that is neither a parameter nor a buffer value: the training flags of the sub-modules, and the autograd status of the
        # buffers (a running statistic that comes out of a call as a non-leaf tensor carries the graph of that batch into every
        # later call and makes the model impossible to deep-copy)
        flags_after = {n_: m_.training for n_, m_ in model.named_modules()}
        r.count("mode_flag_checks")
        if flags_after != flags_before:
            chg = [n_ for n_ in flags_before if flags_after.get(n_) != flags_before[n_]]
            r.viol("model_mutated_in_eval" if mode == "eval" else "undocumented_training_write",
                   "%s.%s changes the training / evaluation mode flags of (sub-)modules" % (label, op), modules=chg[:5], **det)
        graphy = [n_ for n_, b_ in model.named_buffers() if b_.requires_grad or b_.grad_fn is not None]
        if graphy:
            r.viol("buffer_in_graph", "%s.%s leaves a buffer attached to the autograd graph of the call" % (label, op), buffers=graphy[:5], **det)
        if watch.allowed_events:
            r.count("documented_statistic_writes", len(watch.allowed_events))
        # (c) history independence (eval): same call on a never-called copy gives the same bits
        if mode == "eval":
            fresh = copy.deepcopy(model0)
            # sampling operations are compared under the same RNG state; everything else must not depend on it at all in
            # evaluation mode (dropout that is still active would show here)
            torch.manual_seed(seed + step if op in ("sample", "sample_and_log_prob") else seed + step + 104729)
            try:
                with torch.no_grad():
                    # same values in the same memory layout (reduction order depends on strides)
                    ref = call(fresh, layout(x, lay)[0] if x is not None else None,
                               layout(c, lay if step % 2 else "plain")[0] if c is not None else None)
                r.count("fresh_copy_comparisons")
                for k, (a, b) in enumerate(zip(out, ref)):
                    if isinstance(a, torch.Tensor) and isinstance(b, torch.Tensor):
                        err = float((a.detach() - b.detach()).abs().max()) if a.shape == b.shape and a.numel() else None
                        if uses_cache and err is not None and err <= 1e-12 * (1 + float(b.detach().abs().max())):
                            # weight caching on: which direction filled the cache first decides whether logabsdet came from
                            # slogdet or from the LU diagonal - an ulp, not a state leak (C10 owns cache transparency)
                            continue
                        if a.shape != b.shape or not ww.same_bits(a.detach(), b.detach()):
                            r.viol("history_dependence", "%s.%s result depends on earlier calls on the same object" % (label, op),
                                   result_index=k, max_diff=err, **det)
            except Exception:
                r.count("fresh_copy_call_raised")
        if watch.ops > 0:
            r.cell(label, op, mode, lay)
        # the very tensor a forward call returned is handed back as the argument of inverse (a round trip as a user writes it)
        if kind == "transform" and op == "forward" and mode == "eval" and isinstance(out[0], torch.Tensor) and out[0].numel():
            y_arg = out[0]
            prot2 = {"inputs.arg": y_arg}
            prot2.update(model_tensors(model))
            snap2 = ww.snapshot(prot2)
            watch2 = ww.WriteWatch(prot2, allow=set())
            try:
                with watch2, torch.set_grad_enabled(not nograd):
                    out2 = model.inverse(y_arg, cv)
            except Exception:
                r.count("chained_inverse_raised")
            else:
                r.ev()
                r.count("chained_inverse_calls")
                ev2 = [e for e in watch2.events if any(n.startswith("inputs.") for n in e["protected"])]
                ch2 = [n for n in ww.changed(snap2, prot2) if n.startswith("inputs.")]
                if ev2 or ch2:
                    r.viol("argument_mutated", "%s.inverse modifies a tensor passed in by the caller" % label, changed=ch2,
                           write_events=ev2[:2], chained=True, no_grad=nograd, subject=label, op="inverse", mode=mode, step=step, cfg=cfg)
                for o_ in out2:
                    if isinstance(o_, torch.Tensor) and o_.numel():
                        held.append(("inverse(chained)", step, o_, o_.detach().clone()))
    if mode == "eval":
        try:
            reuse_and_update_phase(r, model, model0, kind, cfg, label, opnames, mk_inputs, me if kind == "transform" else None, seed,
                                   uses_cache)
        except Exception as e:
            r.inconc("reuse/update phase: harness failure %r" % (e,))
    r.sample({"subject": label, "mode": mode, "steps": nsteps, "inplace_writes_on_intermediates": total_writes})
    return r.done()


def _needs_ctx(kind, cfg):
    return bool(cfg.get("ctx"))


def do_call(m, op, xx, cc, nsamp):
    if op == "forward":
        return m.forward(xx, cc)
    if op == "inverse":
        return m.inverse(xx, cc)
    if op == "log_prob":
        return (m.log_prob(xx, cc),)
    if op == "transform_to_noise":
        return (m.transform_to_noise(xx, cc),)
    if op == "sample":
        return (m.sample(nsamp, cc),)
    if op == "sample_and_log_prob":
        return m.sample_and_log_prob(nsamp, cc)
    if op == "mean":
        return (m.mean(cc),)


def same_results(a_out, b_out, uses_cache):
    """None when every tensor of the two result tuples has the same bits (an ulp of slack with weight caching on), else the
    index and size of the first difference"""
    for k, (a, b) in enumerate(zip(a_out, b_out)):
        if isinstance(a, torch.Tensor) and isinstance(b, torch.Tensor):
            a, b = a.detach(), b.detach()
            err = float((a - b).abs().max()) if a.shape == b.shape and a.numel() else None
            if uses_cache and err is not None and err <= 1e-12 * (1 + float(b.abs().max())):
                continue
            if a.shape != b.shape or not ww.same_bits(a, b):
                return k, err
    return None


def reuse_and_update_phase(r, model, model0, kind, cfg, label, opnames, mk_inputs, me, seed, uses_cache):
    """Evaluation-mode histories in which (1) the CALLER reuses its own argument tensors - refills them in place between two
    calls made under no_grad, the usual way of evaluating - and (2) the model's values change between calls the legitimate way
    (train(), new parameter / statistic values, eval()).  Results must be those of a never-called copy holding the same values:
    anything the object remembers about earlier arguments (keyed on tensor identity, shape, dtype ...) or about earlier
    parameter values shows as a difference."""
    def inv_inputs(x, c):
        with torch.no_grad():
            y = copy.deepcopy(model0).eval()(x, c)[0].detach()
        if me is not None and me["dom_out"][0] == "box":
            y = y.clamp(me["dom_out"][1], me["dom_out"][2])
        return y

    def compare(tag, op, xx, cc, ref_model, step):
        nsamp = (1, 3)[step % 2]
        torch.manual_seed(seed + 77 + step)
        try:
            with torch.no_grad():
                got = do_call(model, op, xx, cc, nsamp)
        except Exception:
            r.count("calls_raised")
            return
        torch.manual_seed(seed + 77 + step)
        try:
            with torch.no_grad():
                ref = do_call(ref_model, op, None if xx is None else xx.clone(), None if cc is None else cc.clone(), nsamp)
        except Exception:
            r.count("fresh_copy_call_raised")
            return
        r.ev()
        r.count("fresh_copy_comparisons")
        r.count(tag + "_comparisons")
        bad = same_results(got, ref, uses_cache)
        if bad is not None:
            r.viol("history_dependence", "%s.%s result depends on earlier calls on the same object" % (label, op),
                   phase=tag, result_index=bad[0], max_diff=bad[1], subject=label, op=op, cfg=cfg)
        r.cell(label, op, "eval", tag)

    kept = {}
    # (1) caller-owned buffers refilled in place
    for oi, op in enumerate(opnames):
        try:
            x1, c1 = mk_inputs(20 + oi)
            x2, c2 = mk_inputs(23 + oi)          # same batch size (3 + step % 3), other values
            if kind == "transform" and op == "inverse":
                x1, x2 = inv_inputs(x1, c1), inv_inputs(x2, c2)
                if not (torch.isfinite(x1).all() and torch.isfinite(x2).all()):
                    continue
        except Exception:
            continue
        xb = None if x1 is None else x1.clone()
        cb = None if c1 is None else c1.clone()
        torch.manual_seed(seed + 5)
        try:
            with torch.no_grad():
                do_call(model, op, xb, cb, (1, 3)[oi % 2])
        except Exception:
            r.count("calls_raised")
            continue
        if xb is not None and x2 is not None and xb.shape == x2.shape:
            xb.copy_(x2)
        else:
            xb = x2
        if cb is not None and c2 is not None and cb.shape == c2.shape:
            cb.copy_(c2)
        else:
            cb = c2
        compare("refilled_arguments", op, xb, cb, copy.deepcopy(model0), oi)
        kept[op] = (xb, cb)
    # (2) new values through train() ... eval()
    try:
        model.train()
        with torch.no_grad():
            gg = torch.Generator().manual_seed(seed + 991)
            for p_ in model.parameters():
                p_.add_(0.05 * torch.randn(p_.shape, generator=gg, dtype=torch.float64).to(p_.dtype))
            persistent = set(model.state_dict().keys())      # constants kept as non-persistent buffers are not "values"
            for bn, b_ in model.named_buffers():
                if bn in persistent and b_.is_floating_point() and b_.numel() and "initialized" not in bn:
                    b_.mul_(1.25)
        model.eval()
        ref_model = copy.deepcopy(model0)
        ref_model.load_state_dict(model.state_dict())
        ref_model.eval()
    except Exception as e:
        r.count("update_phase_skipped")
        return
    # first of all, with the very tensor objects (unchanged contents) the object saw before its values changed: a memo keyed on the
    # identity / version of an argument survives everything except new values of the model
    for oi, op in reversed(list(enumerate(opnames))):      # most recently used arguments first (a one-slot memo holds those)
        if op in kept and not (kind == "transform" and op == "inverse"):
            compare("same_arguments_after_value_update", op, kept[op][0], kept[op][1], copy.deepcopy(ref_model), oi)
    for oi, op in enumerate(opnames):
        try:
            x1, c1 = mk_inputs(30 + oi)
            if kind == "transform" and op == "inverse":
                with torch.no_grad():
                    x1 = copy.deepcopy(ref_model)(x1, c1)[0].detach()
                if me is not None and me["dom_out"][0] == "box":
                    x1 = x1.clamp(me["dom_out"][1], me["dom_out"][2])
                if not torch.isfinite(x1).all():
                    continue
        except Exception:
            continue
        compare("after_value_update", op, x1, c1, copy.deepcopy(ref_model), oi)

