"""C14 - normalisation layers follow their documented life-cycle over every history.

Monitor: lock-step reference models (pure tensor arithmetic, ~30 lines each) stepped next to the REAL ActNorm /
BatchNorm objects over histories from {train(), eval(), forward(batch), inverse(batch), save+load into a fresh
instance}.  After every step the real state_dict is compared with the reference state, outputs and log-dets with
the reference outputs, and on the initialising batch the per-feature mean / variance of the outputs with 0 / 1.
Histories: exhaustive up to a length bound + random long ones; 2-D and image batches of varying size."""
import io
import itertools

import numpy as np
import torch

from vf import env
from vf.result import R

RULE = ("history over the 5-letter alphabet, exhaustive for length <= L (4 quick / 5 thorough) plus random histories of length "
        "6-30, x {ActNorm 2-D, ActNorm image, BatchNorm}; one evaluation = one step compared with the reference; distinct "
        "non-trivial = distinct (layer, abstract state before the step (mode, initialised?, #training forwards so far capped at 3, "
        "reloaded?), operation) triples")
ASSUMPTIONS = ["documented behaviour as reference: ActNorm initialises once, on its first training-mode forward, to zero mean / unit "
               "variance of that batch (estimator convention learned from the first observation, then required to stay fixed); "
               "BatchNorm: batch statistics + momentum update only in training forwards, running statistics in eval, inverse only in eval"]
REQUIRED_COUNTS = ["steps_compared", "initialisations_observed", "momentum_updates_observed"]
BUDGET = {"case_timeout": {"quick": 300, "thorough": 2400}}

ALPHA = ["train", "eval", "forward", "inverse", "saveload"]


def gen_cases(tier, seed):
    rng = np.random.default_rng(seed + 5)
    L = 4 if tier == "quick" else 5
    hist = []
    for n in range(1, L + 1):
        hist.extend(list(h) for h in itertools.product(ALPHA, repeat=n))
    for _ in range(100 if tier == "quick" else 20000):
        n = int(rng.integers(6, 31))
        hist.append([str(rng.choice(ALPHA, p=[0.15, 0.15, 0.35, 0.2, 0.15])) for _ in range(n)])
    cases = []
    per = 130
    # how the layer is held and how a checkpoint reaches it: on its own or as a child of a container (then saved / loaded
    # through the parent), and with the mode of the receiving instance set after or BEFORE the load
    variants = [("flat", "load_then_mode"), ("flat", "mode_then_load"), ("nested", "load_then_mode"), ("nested", "mode_then_load")]
    for layer in ("actnorm2d", "actnorm4d", "batchnorm"):
        for vi, (hold, order) in enumerate(variants):
            hs = hist if vi == 0 else [h for h in hist if "saveload" in h or hold == "nested"]
            for i in range(0, len(hs), per):
                cases.append({"layer": layer, "histories": hs[i:i + per], "seed": env.subseed(seed, "c14", layer, i, vi),
                              "hold": hold, "order": order, "world": "f64", "cost": 1})
    # the initialising batch far from the origin relative to its spread (un-normalised features: 1000 +- 0.5), both precisions:
    # "that batch comes out with zero mean and unit variance" - to the accuracy the data's own rounding allows
    for i in range(8 if tier == "quick" else 80):
        cases.append({"layer": ["actnorm2d", "actnorm4d"][i % 2], "init_offset": [1000.0, 5000.0, -3000.0, 300.0][(i // 2) % 4],
                      "spread": [0.5, 1.0][(i // 8) % 2], "histories": [], "seed": env.subseed(seed, "c14off", i),
                      "world": "f32" if i % 4 < 2 else "f64", "cost": 1})
    return cases


def run_init_offset(case):
    from nflows import transforms as T
    r = R(case)
    g = torch.Generator().manual_seed(case["seed"])
    dt = torch.get_default_dtype()
    F_ = 1 + case["seed"] % 3
    img = case["layer"] == "actnorm4d"
    n = 64 if not img else 8
    shape = (n, F_, 3, 4) if img else (n, F_)
    off, sp = case["init_offset"], case["spread"]
    x = (torch.randn(shape, generator=g, dtype=torch.float64) * sp + off * (1 + 0.1 * torch.arange(F_, dtype=torch.float64).reshape((1, F_) + (1,) * (len(shape) - 2)))).to(dt)
    layer = T.ActNorm(F_)
    layer.train()
    try:
        with torch.no_grad():
            y, lad = layer(x)
    except Exception as e:
        r.ev()
        r.viol("init_not_normalising", "ActNorm's initialising batch does not come out with zero mean / unit variance", exc=repr(e)[:200],
               offset=off, spread=sp, layer=case["layer"], world=case["world"])
        return r.done()
    r.ev()
    r.count("steps_compared")
    r.count("initialisations_observed")
    r.count("offset_initialisations")
    flat = (y.permute(0, 2, 3, 1).reshape(-1, F_) if img else y).double()
    # the data themselves are rounded to eps * |offset|: relative to the spread that is the accuracy of the normalised batch
    acc = 64 * torch.finfo(dt).eps * abs(off) / sp + 1e-9
    mean_err = float(flat.mean(0).abs().max())
    var_err = min(float((flat.var(0, unbiased=True) - 1).abs().max()), float((flat.var(0, unbiased=False) - 1).abs().max()))
    r.worst("offset_init_err/allowed", max(mean_err, var_err) / acc)
    if not (mean_err <= acc and var_err <= acc) or not bool(layer.initialized):
        r.viol("init_not_normalising", "ActNorm's initialising batch does not come out with zero mean / unit variance", mean_err=mean_err,
               var_err=var_err, allowed=acc, offset=off, spread=sp, layer=case["layer"], world=case["world"])
    else:
        r.cell(case["layer"], "offset_init", case["world"], off)
    r.count("histories", 0)
    r.sample({"layer": case["layer"], "offset": off, "spread": sp, "mean_err": mean_err, "var_err": var_err})
    return r.done()


# ----------------------------------------------------------------------------- reference models
class RefActNorm:
    def __init__(self, F):
        self.F = F
        self.initialized = False
        self.log_scale = torch.zeros(F)
        self.shift = torch.zeros(F)
        self.training = True
        self.ddof = None      # estimator convention, learned at the first initialisation

    def _flat(self, x):
        return x.permute(0, 2, 3, 1).reshape(-1, self.F) if x.dim() == 4 else x

    def forward(self, x, real_state=None):
        info = {}
        if self.training and not self.initialized:
            flat = self._flat(x)
            cands = {}
            for ddof in (1, 0):
                if flat.shape[0] - ddof <= 0:
                    continue
                std = flat.std(dim=0, unbiased=bool(ddof))
                cands[ddof] = (-torch.log(std), -(flat / std).mean(dim=0))
            if self.ddof is None and real_state is not None:
                # learn the convention from what the real object did (either is 'unit variance')
                best = min(cands, key=lambda d: float((cands[d][0] - real_state["log_scale"]).abs().max()))
                self.ddof = best
            d = self.ddof if self.ddof in cands else max(cands)
            self.log_scale, self.shift = cands[d]
            self.initialized = True
            info["initialised"] = True
        sc = torch.exp(self.log_scale)
        if x.dim() == 4:
            y = sc.view(1, -1, 1, 1) * x + self.shift.view(1, -1, 1, 1)
            lad = x.shape[2] * x.shape[3] * self.log_scale.sum() * torch.ones(x.shape[0])
        else:
            y = sc * x + self.shift
            lad = self.log_scale.sum() * torch.ones(x.shape[0])
        return y, lad, info

    def inverse(self, y):
        sc = torch.exp(self.log_scale)
        if y.dim() == 4:
            x = (y - self.shift.view(1, -1, 1, 1)) / sc.view(1, -1, 1, 1)
            lad = -y.shape[2] * y.shape[3] * self.log_scale.sum() * torch.ones(y.shape[0])
        else:
            x = (y - self.shift) / sc
            lad = -self.log_scale.sum() * torch.ones(y.shape[0])
        return x, lad, {}

    def state(self):
        return {"initialized": torch.tensor(self.initialized), "log_scale": self.log_scale, "shift": self.shift}


class RefBatchNorm:
    def __init__(self, F, eps, momentum, uw, bias):
        self.eps, self.m = eps, momentum
        self.uw, self.bias = uw.clone(), bias.clone()
        self.rm = torch.zeros(F)
        self.rv = torch.zeros(F)
        self.training = True
        self.ddof = None

    def weight(self):
        return torch.nn.functional.softplus(self.uw) + self.eps

    def forward(self, x, real_state=None):
        info = {}
        if self.training:
            mean = x.mean(0)
            cands = {d: x.var(0, unbiased=bool(d)) for d in (1, 0) if x.shape[0] - d > 0}
            if self.ddof is None and real_state is not None:
                pred = {d: (1 - self.m) * self.rv + self.m * cands[d] for d in cands}
                self.ddof = min(pred, key=lambda d: float((pred[d] - real_state["running_var"]).abs().max()))
            d = self.ddof if self.ddof in cands else max(cands)
            var = cands[d]
            self.rm = (1 - self.m) * self.rm + self.m * mean
            self.rv = (1 - self.m) * self.rv + self.m * var
            info["momentum_update"] = True
        else:
            mean, var = self.rm, self.rv
        w = self.weight()
        y = w * ((x - mean) / torch.sqrt(var + self.eps)) + self.bias
        lad = (torch.log(w) - 0.5 * torch.log(var + self.eps)).sum() * torch.ones(x.shape[0])
        return y, lad, info

    def inverse(self, y):
        if self.training:
            return None, None, {"raises": "InverseNotAvailable"}
        w = self.weight()
        x = torch.sqrt(self.rv + self.eps) * ((y - self.bias) / w) + self.rm
        lad = (-torch.log(w) + 0.5 * torch.log(self.rv + self.eps)).sum() * torch.ones(y.shape[0])
        return x, lad, {}

    def state(self):
        return {"running_mean": self.rm, "running_var": self.rv, "unconstrained_weight": self.uw, "bias": self.bias}


# ----------------------------------------------------------------------------- driver
def new_real(layer, F, seed, cfg_seed=None):
    """cfg_seed fixes the constructor arguments (momentum); seed only the random initial values"""
    from nflows import transforms as T
    torch.manual_seed(seed)
    if layer == "batchnorm":
        m = T.BatchNorm(F, eps=1e-5, momentum=0.1 + 0.2 * ((seed if cfg_seed is None else cfg_seed) % 3))
        with torch.no_grad():
            m.unconstrained_weight.copy_(torch.randn(F))
            m.bias.copy_(torch.randn(F))
        return m
    return T.ActNorm(F)


def batch(layer, F, g):
    n = int(torch.randint(2, 7, (1,), generator=g))
    if layer == "actnorm4d" and int(torch.randint(0, 3, (1,), generator=g)) == 0:
        n = 1          # a single image still carries H*W samples per channel (it initialises the layer like any other batch)
    if layer == "actnorm4d":
        return torch.randn(n, F, 2, 3, generator=g) * (0.5 + 2 * torch.rand(1, F, 1, 1, generator=g)) + 3 * torch.randn(1, F, 1, 1, generator=g)
    return torch.randn(n, F, generator=g) * (0.5 + 2 * torch.rand(1, F, generator=g)) + 3 * torch.randn(1, F, generator=g)


def run_case(case):
    from nflows.transforms.base import InverseNotAvailable
    if case.get("init_offset") is not None:
        return run_init_offset(case)
    r = R(case)
    layer = case["layer"]
    tol = 1e-10
    for hi, hist in enumerate(case["histories"]):
        seed = env.subseed(case["seed"], hi)
        g = torch.Generator().manual_seed(seed)
        F = 1 + seed % 3
        real = new_real(layer, F, seed)
        nested = case.get("hold") == "nested"
        top = _hold(real, nested)
        if layer == "batchnorm":
            ref = RefBatchNorm(F, real.eps, real.momentum, real.unconstrained_weight.detach(), real.bias.detach())
        else:
            ref = RefActNorm(F)
        ntrain, reloaded = 0, False
        for si, op in enumerate(hist):
            abstract = "%s|%s|init%d|tf%d|%s" % (layer, "T" if ref.training else "E", int(getattr(ref, "initialized", ntrain > 0)),
                                                 min(ntrain, 3), "R" if reloaded else "-")
            ctxd = dict(layer=layer, history=hist[:si + 1], step=si, op=op, state=abstract, hold=case.get("hold", "flat"),
                        order=case.get("order", "load_then_mode"))
            try:
                if op == "train":
                    top.train()
                    ref.training = True
                elif op == "eval":
                    top.eval()
                    ref.training = False
                elif op == "saveload":
                    buf = io.BytesIO()
                    torch.save(top.state_dict(), buf)
                    buf.seek(0)
                    fresh = new_real(layer, F, seed + 1000 + si, cfg_seed=seed)
                    ftop = _hold(fresh, nested)
                    if case.get("order") == "mode_then_load":
                        ftop.train(top.training)
                        ftop.load_state_dict(torch.load(buf))
                    else:
                        ftop.load_state_dict(torch.load(buf))
                        ftop.train(top.training)
                    real, top = fresh, ftop
                    reloaded = True
                    r.count("reloads_%s_%s" % (case.get("hold", "flat"), case.get("order", "load_then_mode")))
                elif op == "forward":
                    x = batch(layer, F, g)
                    with torch.no_grad():
                        y, lad = top(x)
                    rs = {k: v.detach().clone() for k, v in real.state_dict().items()}
                    ry, rl, info = ref.forward(x, rs)
                    if ref.training:
                        ntrain += 1
                    r.ev()
                    r.count("steps_compared")
                    if info.get("initialised"):
                        r.count("initialisations_observed")
                        flat = y.permute(0, 2, 3, 1).reshape(-1, F) if y.dim() == 4 else y
                        mean_err = float(flat.mean(0).abs().max())
                        var_err = min(float((flat.var(0, unbiased=True) - 1).abs().max()) if flat.shape[0] > 1 else 9,
                                      float((flat.var(0, unbiased=False) - 1).abs().max()))
                        if mean_err > 1e-9 or var_err > 1e-9:
                            r.viol("init_not_normalising", "ActNorm's initialising batch does not come out with zero mean / unit variance",
                                   mean_err=mean_err, var_err=var_err, **ctxd)
                    if info.get("momentum_update"):
                        r.count("momentum_updates_observed")
                    if not _close(y, ry, tol) or not _close(lad, rl, tol):
                        r.viol("forward_mismatch", "%s forward differs from the documented life-cycle" % layer.rstrip("24d"),
                               out_err=_err(y, ry), lad_err=_err(lad, rl), **ctxd)
                        break
                    r.cell(abstract, op, case.get("hold", "flat"), case.get("order", "-") if reloaded else "-")
                elif op == "inverse":
                    x = batch(layer, F, g)
                    rx, rl, info = ref.inverse(x)
                    r.ev()
                    r.count("steps_compared")
                    try:
                        with torch.no_grad():
                            y, lad = top.inverse(x)
                        raised = None
                    except InverseNotAvailable:
                        raised = "InverseNotAvailable"
                    if info.get("raises"):
                        if raised != info["raises"]:
                            r.viol("inverse_offered_in_training", "BatchNorm offers its inverse in training mode", **ctxd)
                            break
                    else:
                        if raised:
                            r.viol("inverse_refused", "%s refuses its inverse where it is documented to work" % layer, **ctxd)
                            break
                        if not _close(y, rx, tol) or not _close(lad, rl, tol):
                            r.viol("inverse_mismatch", "%s inverse differs from the documented life-cycle" % layer.rstrip("24d"),
                                   out_err=_err(y, rx), lad_err=_err(lad, rl), **ctxd)
                            break
                    r.cell(abstract, op)
            except Exception as e:
                r.ev()
                r.viol("raises", "%s raises during a legal history" % layer, exc=repr(e)[:200], exc_type=type(e).__name__, **ctxd)
                break
            # state after every step
            rs = real.state_dict()
            bad = None
            for k, v in ref.state().items():
                if k not in rs:
                    bad = "missing key " + k
                    break
                if v.dtype == torch.bool:
                    if bool(rs[k]) != bool(v):
                        bad = k
                        break
                elif not _close(rs[k], v, tol):
                    bad = k
                    break
            if bad:
                r.viol("state_mismatch", "%s state departs from the documented life-cycle" % layer.rstrip("24d"), field=bad,
                       real=(rs[bad].tolist() if bad in rs else None), expected=(ref.state()[bad].tolist() if bad in ref.state() else None),
                       **ctxd)
                break
    r.sample({"layer": layer, "history": case["histories"][min(7, len(case["histories"]) - 1)]})
    return r.done()


def _hold(layer_obj, nested):
    """the layer itself, or a container whose only child it is (mode switches, calls and checkpoints then go through the parent)"""
    if not nested:
        return layer_obj
    from nflows import transforms as T
    return T.CompositeTransform([layer_obj])


def _err(a, b):
    if a is None or b is None or a.shape != b.shape:
        return None
    return float((a - b).abs().max())


def _close(a, b, tol):
    if a.shape != b.shape:
        return False
    return bool(((a - b).abs() <= tol * (1 + b.abs())).all()) or (bool(torch.isnan(a).any()) and bool(torch.equal(torch.isnan(a), torch.isnan(b))))
