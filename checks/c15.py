"""C15 - saving and reloading a model reproduces the same function.

Monitor: twin comparison.  Model A is built under seed s1 and taken through a pre-save history (fresh / training
steps / data-dependent initialisation / eval calls that fill caches); model B is built from the SAME constructor
arguments under a different global seed s2 and receives A's state dict (strict, also through torch.save/load into
a BytesIO).  Then both are driven through the same calls - a training-mode forward first (modules default to
training mode after construction), then eval-mode forward / inverse / log_prob / sample under a common re-seed -
and every result must be BIT-identical; the state dicts must still agree afterwards."""
import copy
import io

import numpy as np
import torch

from vf import env, zoo, dzoo
from vf.result import R
from vf.monitors import writewatch as ww

RULE = ("subject = transform family x configuration (all zoo families, so every source of constructor-time randomness: random "
        "permutations, random MADE masks/degrees in both copies, coupling index buffers, 1x1-conv permutation) / flow / distribution, "
        "x pre-save history; one evaluation = one result tensor compared bitwise between original and reloaded model; a cell "
        "(subject family, history, operation) is non-trivial when the freshly built B (before loading) did NOT already agree with A, "
        "i.e. the state dict really had to carry the function")
ASSUMPTIONS = ["single-threaded execution in one process makes bitwise comparison meaningful",
               "same constructor arguments = same JSON config; only the global RNG seed differs"]
REQUIRED_COUNTS = ["bitwise_comparisons", "models_reloaded", "byteio_roundtrips"]
BUDGET = {"case_timeout": {"quick": 300, "thorough": 2400}}
HIST = ["fresh", "train_steps", "data_init", "eval_calls", "copied"]


def gen_cases(tier, seed):
    rng = np.random.default_rng(seed + 41)
    cases = []
    nrand = 3 if tier == "quick" else 120
    for fam in zoo.ALL_FAMS:
        cfgs = zoo.configs([fam], tier, seed + 13, nrand)
        for ci, cfg in enumerate(cfgs):
            cases.append({"kind": "transform", "cfg": cfg, "hist": HIST[ci % 5], "seed": env.subseed(seed, "c15", fam, ci),
                          "world": "f32" if ci % 3 == 0 else "f64", "cost": 6 if "umnn" in fam else 2})
    # extra weight on the random-structure families
    for i in range(30 if tier == "quick" else 3000):
        fam = ["ar_affine", "ar_rq", "ar_quadratic", "ar_linear", "permutation", "conv1x1", "coupling_rq"][i % 7]
        cfg = zoo.FAM[fam].sample_cfg(rng, tier)
        if fam.startswith("ar_"):
            cfg["residual"] = False
            cfg["random_mask"] = True
            cfg["blocks"] = max(cfg["blocks"], 1)
        if fam == "permutation":
            cfg["kind"] = "random"
        cases.append({"kind": "transform", "cfg": cfg, "hist": HIST[i % 5], "seed": env.subseed(seed, "c15r", i),
                      "world": "f64", "cost": 2})
    # stateful layers nested in containers (their state dict is loaded through the parent), every history
    nested = [
        {"fam": "composite", "shape": [3], "ctx": 0, "parts": [{"fam": "actnorm", "shape": [3]},
                                                               {"fam": "lu", "shape": [3], "cache": False, "idinit": False}]},
        {"fam": "composite", "shape": [2, 2, 3], "ctx": 0, "parts": [{"fam": "actnorm", "shape": [2, 2, 3]},
                                                                     {"fam": "conv1x1", "shape": [2, 2, 3], "cache": False, "idinit": False}]},
        {"fam": "inverse", "inner": {"fam": "actnorm", "shape": [4]}},
        {"fam": "composite", "shape": [3], "ctx": 0, "parts": [{"fam": "batchnorm", "shape": [3], "momentum": 0.1, "eps": 1e-5},
                                                               {"fam": "actnorm", "shape": [3]}]},
        {"fam": "inverse", "inner": {"fam": "batchnorm", "shape": [2], "momentum": 0.3, "eps": 1e-3}},
        # weight caching on: whatever load_state_dict does to the cache must happen after the children are restored
        {"fam": "qr", "shape": [4], "cache": True, "nh": 3},
        {"fam": "svd", "shape": [4], "cache": True, "nh": 4, "idinit": False},
        {"fam": "lu", "shape": [3], "cache": True, "idinit": False},
        {"fam": "composite", "shape": [4], "ctx": 0, "parts": [{"fam": "qr", "shape": [4], "cache": True, "nh": 2},
                                                               {"fam": "svd", "shape": [4], "cache": True, "nh": 2, "idinit": True}]},
    ]
    # learned temperatures inside containers, moved away from the constructor value before saving
    for ni, cfg in enumerate([
            {"fam": "composite", "shape": [3], "ctx": 0, "parts": [{"fam": "sigmoid", "shape": [3], "temp": 1.0, "learn": True}]},
            {"fam": "inverse", "inner": {"fam": "sigmoid", "shape": [2], "temp": 3.0, "learn": True}},
            {"fam": "sigmoid", "shape": [2, 2, 2], "temp": 0.5, "learn": True}]):
        for ef in (False, True):
            cases.append({"kind": "transform", "cfg": cfg, "hist": "perturbed", "seed": env.subseed(seed, "c15t", ni), "eval_first": ef,
                          "world": "f64", "cost": 1})
    # constructors called with their DEFAULT (mutable) arguments, several times in one process
    for i in range(2):
        cases.append({"kind": "umnn_defaults", "which": ["ar", "coupling"][i], "seed": env.subseed(seed, "c15u", i), "world": "f32",
                      "hist": "fresh", "cfg": {"fam": "umnn_defaults"}, "cost": 4})
    for ni, cfg in enumerate(nested):
        for hi, h in enumerate(HIST):
            for ef in (False, True):
                cases.append({"kind": "transform", "cfg": cfg, "hist": h, "seed": env.subseed(seed, "c15n", ni, hi), "eval_first": ef,
                              "world": "f64" if (ni + hi) % 2 else "f32", "cost": 2})
    for i in range(40 if tier == "quick" else 3000):
        cases.append({"kind": "flow", "cfg": dzoo.sample_flow_cfg(rng), "hist": HIST[i % 5], "seed": env.subseed(seed, "c15f", i),
                      "world": "f64", "cost": 3})
    for i in range(30 if tier == "quick" else 2000):
        cases.append({"kind": "dist", "cfg": dzoo.sample_dist_cfg(rng), "hist": [HIST[0], HIST[1], HIST[4]][i % 3], "seed": env.subseed(seed, "c15d", i),
                      "world": "f64", "cost": 1})
    return cases


def build(kind, cfg, seed):
    torch.manual_seed(seed)
    np.random.seed(seed % (2 ** 31))
    if kind == "transform":
        m = zoo.build(cfg)
    elif kind == "flow":
        m = dzoo.build_flow(cfg, seed, policy="fresh")
    else:
        m = dzoo.build_dist(cfg, seed)
    return m


def inputs(kind, cfg, n, seed):
    if kind == "transform":
        me = zoo.meta(cfg)
        return zoo.sample_inputs(me, n, seed, structured=False), zoo.sample_context(me, n, seed + 1), me
    if kind == "flow":
        x, c = dzoo.flow_inputs(cfg, n, seed)
        return x, c, None
    x, c = dzoo.dist_inputs(cfg, n, seed)
    return x, c, None


def calls(kind, cfg):
    if kind == "transform":
        return ["forward", "inverse"]
    if kind == "flow":
        return ["log_prob", "transform_to_noise", "sample", "sample_and_log_prob"]
    dm = dzoo.dist_meta(cfg)
    return ["log_prob"] + (["sample"] if dm["can_sample"] else [])


def do(m, op, x, c, seed):
    torch.manual_seed(seed)
    if op == "forward":
        return m(x, c)
    if op == "inverse":
        return m.inverse(x, c)
    if op == "log_prob":
        return (m.log_prob(x, c),)
    if op == "transform_to_noise":
        return (m.transform_to_noise(x, c),)
    if op == "sample":
        return (m.sample(3, c),)
    if op == "sample_and_log_prob":
        return m.sample_and_log_prob(3, c)


def run_umnn_defaults(case):
    from nflows import transforms as T
    r = R(case)
    seed = case["seed"]
    shared_layers = [20, 20]

    def mk():
        if case["which"] == "ar":
            return T.MaskedUMNNAutoregressiveTransform(features=3, hidden_features=8)
        return T.UMNNCouplingTransform(mask=[1, 0, 1], integrand_net_layers=shared_layers, cond_size=4, nb_steps=20,
                                       solver="CCParallel", transform_net_create_fn=lambda i, o: zoo.PlainNet(i, o))
    label = "umnn_%s(default arguments)" % case["which"]
    try:
        torch.manual_seed(seed)
        models = [mk() for _ in range(3)]
    except Exception as e:
        r.inconc("construction failed %r" % (e,))
        return r.done()
    r.ev()
    r.count("models_reloaded")
    keys = [sorted(m.state_dict().keys()) for m in models]
    shapes = [[tuple(v.shape) for _, v in sorted(m.state_dict().items())] for m in models]
    if keys[0] != keys[1] or keys[1] != keys[2] or shapes[0] != shapes[2]:
        r.viol("keys", "%s state-dict key sets differ between two instances of the same configuration" % label,
               n_keys=[len(k) for k in keys])
        return r.done()
    try:
        models[2].load_state_dict(models[0].state_dict(), strict=True)
    except Exception as e:
        r.viol("load", "%s load_state_dict(strict) of its own kind's state dict fails" % label, exc=repr(e)[:300])
        return r.done()
    x = torch.randn(4, 3)
    for m in (models[0], models[2]):
        m.eval()
    with torch.no_grad():
        a, b = models[0](x), models[2](x)
    r.count("bitwise_comparisons", 2)
    r.count("byteio_roundtrips")
    if not (ww.same_bits(a[0], b[0]) and ww.same_bits(a[1], b[1])):
        r.viol("not_reproduced", "%s.forward differs between the original and the reloaded model" % label)
    else:
        r.cell(label, "fresh", "forward")
    r.sample({"subject": label, "instances": 3})
    return r.done()


def run_case(case):
    if case["kind"] == "umnn_defaults":
        return run_umnn_defaults(case)
    r = R(case)
    kind, cfg, seed = case["kind"], case["cfg"], case["seed"]
    label = cfg.get("fam") or ("flow_" + cfg["flow"] if kind == "flow" else "dist_" + cfg["dist"])
    try:
        A = build(kind, cfg, seed)
    except Exception as e:
        r.inconc("construction failed %r" % (e,))
        return r.done()
    x, c, me = inputs(kind, cfg, 6, seed + 2)
    hist = case["hist"]
    # ---- pre-save history on A
    try:
        if hist == "train_steps":
            A.train()
            params = [p for p in A.parameters() if p.requires_grad]
            if params:
                opt = torch.optim.SGD(params, lr=1e-2)
                for k in range(2):
                    opt.zero_grad()
                    out = do(A, calls(kind, cfg)[0], x, c, seed)
                    loss = sum(t.float().pow(2).mean() for t in out if isinstance(t, torch.Tensor))
                    if loss.requires_grad:
                        loss.backward()
                        opt.step()
        elif hist == "perturbed":
            g_ = torch.Generator().manual_seed(seed + 3)
            with torch.no_grad():
                for n_, p_ in A.named_parameters():
                    if n_.split(".")[-1] == "temperature":
                        p_.mul_(0.6)
                    else:
                        p_.add_(0.05 * torch.randn(p_.shape, generator=g_).to(p_.dtype))
        elif hist == "copied":
            # the model that is saved is a deep copy (an EMA / snapshot / target network) whose values moved on afterwards: it must
            # be a model of its own - whatever it still shares with the object it was copied from shows against the reloaded one
            A0 = A
            A = copy.deepcopy(A0)
            g_ = torch.Generator().manual_seed(seed + 3)
            with torch.no_grad():
                for n_, p_ in A.named_parameters():
                    if n_.split(".")[-1] == "temperature":
                        p_.mul_(0.8)
                    else:
                        p_.add_(0.05 * torch.randn(p_.shape, generator=g_).to(p_.dtype))
            r.count("saved_from_a_deep_copy")
        elif hist == "data_init":
            A.train()
            with torch.no_grad():
                do(A, calls(kind, cfg)[0], x, c, seed)
        elif hist == "eval_calls":
            A.eval()
            with torch.no_grad():
                for op in calls(kind, cfg)[:2]:
                    try:
                        do(A, op, x, c, seed)
                    except Exception:
                        pass
    except Exception as e:
        r.count("history_raised")
    # ---- B: same arguments, other seed; for every other transform case also other constructor-given buffer VALUES of the same
    #      shapes (another permutation, other affine constants, another coupling mask with the same number of transformed
    #      features - what the library's random mask / permutation helpers give under another seed): they all travel in the
    #      state dict
    cfg_B = cfg
    if kind == "transform" and (seed // 2) % 2 == 0:
        cfg_B = zoo.reseed_cfg(cfg)
        if cfg_B != cfg:
            r.count("reloaded_into_other_buffer_values")
    try:
        B = build(kind, cfg_B, seed + 7919)
    except Exception as e:
        r.viol("construct", "%s cannot be constructed twice with the same arguments" % label, exc=repr(e)[:200], cfg=cfg)
        return r.done()
    sdA = A.state_dict()
    r.ev()
    if set(sdA.keys()) != set(B.state_dict().keys()):
        r.viol("keys", "%s state-dict key sets differ between two instances of the same configuration" % label,
               only_A=sorted(set(sdA) - set(B.state_dict()))[:5], only_B=sorted(set(B.state_dict()) - set(sdA))[:5], cfg=cfg)
    # did B agree with A before loading?  (non-triviality)
    pre_agree = True
    try:
        A_mode = A.training
        A.eval(); B.eval()
        with torch.no_grad():
            oa, ob = do(A, calls(kind, cfg)[0], x, c, seed), do(B, calls(kind, cfg)[0], x, c, seed)
        pre_agree = all(ww.same_bits(a, b) for a, b in zip(oa, ob) if isinstance(a, torch.Tensor))
        A.train(A_mode)
    except Exception:
        pass
    # through torch.save / torch.load
    buf = io.BytesIO()
    torch.save(sdA, buf)
    buf.seek(0)
    sd = torch.load(buf)
    r.count("byteio_roundtrips")
    try:
        B.load_state_dict(sd, strict=True)
    except Exception as e:
        r.viol("load", "%s load_state_dict(strict) of its own kind's state dict fails" % label, exc=repr(e)[:300], cfg=cfg)
        return r.done()
    r.count("models_reloaded")
    det = dict(subject=label, cfg=cfg, history=hist)

    def compare(op, mode, xx, cc):
        # no redundant mode calls: a model that was put into evaluation mode BEFORE its checkpoint was loaded is used as it
        # is (anything derived from the statistics at the time of the mode switch would be stale)
        for m_ in (A, B):
            if m_.training != (mode == "train"):
                m_.train(mode == "train")
        try:
            with torch.no_grad():
                oa = do(A, op, xx, cc, seed + 5)
        except Exception as e:
            return "skip"
        try:
            with torch.no_grad():
                ob = do(B, op, xx, cc, seed + 5)
        except Exception as e:
            r.viol("reloaded_raises", "%s.%s raises on the reloaded model but not on the original" % (label, op), mode=mode,
                   exc=repr(e)[:200], **det)
            return "bad"
        for k, (a, b) in enumerate(zip(oa, ob)):
            if not isinstance(a, torch.Tensor):
                continue
            r.ev()
            r.count("bitwise_comparisons")
            if a.shape != b.shape or not ww.same_bits(a, b):
                err = float((a - b).abs().max()) if a.shape == b.shape and a.numel() else None
                r.viol("not_reproduced", "%s.%s differs between the original and the reloaded model" % (label, op), mode=mode,
                       result_index=k, max_diff=err, **det)
                return "bad"
        return "ok"

    ops = calls(kind, cfg)
    good = True
    # 1. first call after loading happens in training mode (the default mode of a fresh module) - or, for every other
    #    case, straight in evaluation mode (load + eval() + use: nothing has called train() on the restored model)
    eval_first = bool(case.get("eval_first", seed % 2 == 0))
    if not eval_first:
        st = compare(ops[0], "train", x, c)
        good &= st != "bad"
    # 2. evaluation mode, every operation
    for op in ops:
        xx = x
        if op == "inverse":
            try:
                A.eval()
                with torch.no_grad():
                    xx = A(x, c)[0]
                if me and me["dom_out"][0] == "box":
                    xx = xx.clamp(me["dom_out"][1], me["dom_out"][2])
            except Exception:
                continue
        st = compare(op, "eval", xx, c)
        good &= st != "bad"
        if st == "ok" and not pre_agree:
            r.cell(label, hist, op)
    if eval_first:
        st = compare(ops[0], "train", x, c)
        good &= st != "bad"
    # 3. state dicts still agree (statistics updated identically)
    sa, sb = A.state_dict(), B.state_dict()
    for k in sa:
        if k in sb and sa[k].shape == sb[k].shape and not ww.same_bits(sa[k], sb[k]):
            r.viol("state_diverged", "%s state dicts diverge after identical calls on original and reloaded model" % label, key=k, **det)
            break
    if pre_agree:
        r.count("trivially_equal_before_loading")
    r.sample({"subject": label, "history": hist, "agreed_before_loading": pre_agree, "keys": len(sdA)})
    return r.done()
