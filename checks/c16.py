"""C16 - log_prob and transforms are differentiable with correct gradients.

Monitor: finite-difference oracle on the real code in float64.  A scalar functional L = <w, outputs> + <v, logabsdet>
(resp. <v, log_prob>) with fixed random w, v is back-propagated (twice, with fresh forwards; for cached linear
transforms also after an inverse call filled the cache first).  The directional derivative <grad, U> is compared
with central differences at h and h/2 - jointly over all parameters, per parameter tensor, for the inputs and for
the context.  If the two step sizes disagree the point sits on a kink and is resampled (counted).  A parameter
whose finite difference is non-zero must have received a finite gradient.  Gradients must be finite, also at
inputs that contain exact zeros."""
import copy

import numpy as np
import torch

from vf import env, zoo, dzoo
from vf.result import R

RULE = ("subject = transform family x configuration (tanh conditioners to keep ReLU kinks out) / flow, x direction x mode (eval, "
        "train) x parameter policy; one evaluation = one directional derivative compared with central differences; a cell "
        "(subject family, direction, mode, what: all-params | tensor | inputs | context) is non-trivial when the finite "
        "difference is non-zero (> 1e-8)")
ASSUMPTIONS = ["float64; central differences with h = 1e-5 and h/2; accept relative error <= 1e-5 (observed <= 4e-9) ",
               "points where the two step sizes disagree by > 1e-4 relative are kinks and are resampled (at most 3 times)"]
REQUIRED_COUNTS = ["fd_comparisons", "backward_calls", "per_tensor_checks", "f32_gradient_comparisons"]
BUDGET = {"case_timeout": {"quick": 400, "thorough": 3000}}
H = 1e-5
RTOL = 3e-5      # observed <= 4e-9 typically; the tail over 1.5e5 comparisons (thorough) reaches 1.1e-5


def gen_cases(tier, seed):
    rng = np.random.default_rng(seed + 51)
    cases = []
    nrand = 2 if tier == "quick" else 120
    for fam in zoo.ALL_FAMS:
        cfgs = zoo.configs([fam], tier, seed + 17, nrand)
        for ci, cfg in enumerate(cfgs):
            cached = bool(cfg.get("cache"))
            cfg = _smooth(cfg)
            mode = "eval" if ci % 3 else "train"
            pol = ["randn0.3", "randn1", "fresh"][ci % 3]
            if "umnn" in fam and pol == "randn1":
                pol = "randn0.3"
            cases.append({"kind": "transform", "cfg": cfg, "policy": pol, "mode": mode, "seed": env.subseed(seed, "c16", fam, ci),
                          "world": "f64", "tier_": tier, "cost": 10 if "umnn" in fam else 3})
            if cached:
                c2 = dict(cfg, cache=True)
                cases.append(dict(cases[-1], cfg=c2, mode="eval", inputs_only=True))
                cases.append(dict(cases[-1], cfg=c2, mode="eval", pre="inverse_first", inputs_only=True))
    for i in range(30 if tier == "quick" else 2400):
        cfg = dzoo.sample_flow_cfg(rng)
        if "parts" in cfg:
            cfg["parts"] = [_smooth(p) for p in cfg["parts"]]
        cases.append({"kind": "flow", "cfg": cfg, "mode": "eval" if i % 2 else "train", "policy": "randn0.3",
                      "seed": env.subseed(seed, "c16f", i), "world": "f64", "tier_": tier, "cost": 5})
    # conditioners with dropout in TRAINING mode (masks fixed by the re-seeded RNG): backward must work and be right -
    # library residual nets for vectors and images, masked blocks of MADE
    k = 0
    for fam, image in (("coupling_affine", True), ("coupling_affine", False), ("coupling_rq", True), ("ar_affine", False), ("ar_rq", False)):
        for rep in range(1 if tier == "quick" else 6):
            cfg = None
            for _ in range(60):
                cfg = zoo.FAM[fam].sample_cfg(rng, tier)
                if (len(cfg["shape"]) == 3) == image:
                    break
            cfg = _smooth(dict(cfg, dropout=0.3))
            if "net" in cfg:
                cfg["net"] = "resnet"
            if fam.startswith("ar_"):
                cfg["blocks"] = max(cfg["blocks"], 1)
            cases.append({"kind": "transform", "cfg": cfg, "policy": "randn0.3", "mode": "train", "seed": env.subseed(seed, "c16do", k),
                          "world": "f64", "tier_": tier, "cost": 3})
            k += 1
    # user-written conditioners that expose `hidden_features` and end in an op whose backward needs its own output (tanh):
    # whatever the layer does with the conditioner's output, back-propagation must still succeed and be right
    k = 0
    for fam in ("coupling_affine", "coupling_linear", "coupling_quadratic", "coupling_cubic", "coupling_rq"):
        for image in (False, True):
            cfg = None
            for _ in range(80):
                cfg = zoo.FAM[fam].sample_cfg(rng, tier)
                if (len(cfg["shape"]) == 3) == image and not cfg.get("uncond"):
                    break
            cfg = _smooth(dict(cfg, net="bounded"))
            cfg.pop("net_bn", None)
            cfg.pop("dropout", None)
            cases.append({"kind": "transform", "cfg": cfg, "policy": "randn0.3", "mode": "eval", "seed": env.subseed(seed, "c16bounded", k),
                          "world": "f64", "tier_": tier, "cost": 3})
            k += 1
    # FROZEN conditioners / layers (requires_grad False on every parameter of the transform, or on every other parameter tensor): the
    # gradient with respect to inputs and context - the score of a frozen model, or the path to earlier trainable layers - and the
    # gradients of the parameters that stay trainable must still be right (UMNN left out: its third-party integrator raises when a
    # parameter is frozen)
    k = 0
    for fam in ("coupling_affine", "coupling_additive", "coupling_rq", "coupling_quadratic", "ar_affine", "ar_rq", "lu", "actnorm", "composite"):
        for frz in ("all", "alternate"):
            if tier == "quick" and fam not in ("coupling_affine", "coupling_rq", "ar_affine", "composite") and frz == "alternate":
                continue
            for rep in range(1 if tier == "quick" else 8):
                cfg = _smooth(zoo.FAM[fam].sample_cfg(rng, tier))
                if "umnn" in str(cfg):
                    continue
                cfg.pop("dropout", None)
                if fam.startswith("coupling_") and rep % 2 == 0:
                    cfg["ctx"] = 2
                cases.append({"kind": "transform", "cfg": cfg, "policy": "randn0.3", "mode": "eval", "freeze": frz,
                              "seed": env.subseed(seed, "c16frz", k), "world": "f64", "tier_": tier, "cost": 3})
                k += 1
    # the affine coupling's GENERAL scale activation is capped at 3: where the cap is active the scale does not depend on the
    # conditioner any more (its gradient there is zero) - conditioner outputs pushed to about 5
    for i in range(3 if tier == "quick" else 20):
        cfg = zoo.FAM["coupling_affine"].sample_cfg(rng, tier)
        cfg = _smooth(dict(cfg, scale_act="general", net="resnet"))
        cases.append({"kind": "transform", "cfg": cfg, "policy": "randn0.3", "mode": "eval", "final_bias": 5.0,
                      "seed": env.subseed(seed, "c16cap", i), "world": "f64", "tier_": tier, "cost": 3})
    # never-initialised ActNorm whose first call is a training-mode forward (parameters collected before that call)
    for i, shp in enumerate(([3], [2, 2, 2], [4])):
        for wrap in (False, True):
            cfg = {"fam": "actnorm", "shape": shp}
            if wrap:
                cfg = {"fam": "composite", "shape": shp, "ctx": 0, "parts": [cfg, {"fam": "lu", "shape": shp, "cache": False, "idinit": False}]} \
                    if len(shp) == 1 else {"fam": "composite", "shape": shp, "ctx": 0, "parts": [cfg]}
            cases.append({"kind": "transform", "cfg": cfg, "policy": "fresh", "mode": "train", "cold": True,
                          "seed": env.subseed(seed, "c16cold", i, wrap), "world": "f64", "tier_": tier, "cost": 1})
    # the four spline functions element-wise in float32 next to float64 (2e4 points per case, many next to bin ends):
    # every element must receive an input gradient, equal to the float64 one where the float32 value itself agrees
    k = 0
    for fam in ("linear", "quadratic", "cubic", "rq"):
        for inverse in (False, True):
            for flat in (False, True):
                for rep in range(1 if tier == "quick" else 6):
                    cases.append({"kind": "spline_grad", "family": fam, "inverse": inverse, "flat_ends": flat, "mode": "eval",
                                  "n": 20000 if tier == "quick" else 100000, "seed": env.subseed(seed, "c16sg", k), "world": "f32",
                                  "tier_": tier, "cost": 2})
                    k += 1
    # library distributions: log_prob must be differentiable w.r.t. parameters, inputs and context
    for i in range(20 if tier == "quick" else 1500):
        dc = dzoo.sample_dist_cfg(rng, [["cond_diag", "mademog", "mademog", "diag", "bernoulli"][i % 5]])
        if dc["dist"] == "mademog":
            dc["narrow"] = False
            dc["bn"] = bool(i % 2)
            dc["act"] = ["relu", "elu", "tanh"][(i // 5) % 3]
        cases.append({"kind": "dist", "cfg": dc, "mode": "eval" if i % 3 else "train", "policy": "fresh",
                      "seed": env.subseed(seed, "c16d", i), "world": "f64", "tier_": tier, "cost": 2})
    return cases


def _smooth(cfg, keep_cache=False):
    cfg = dict(cfg)
    if "net" in cfg or "hidden" in cfg:
        cfg["act"] = "tanh"
    if "cache" in cfg and not keep_cache:
        # weight caching is an inference optimisation: cached weights are detached, so parameter gradients are only
        # promised on the uncached path; the cached path is checked separately for input/context gradients
        cfg["cache"] = False
    for k in ("parts",):
        if k in cfg:
            cfg[k] = [_smooth(c) for c in cfg[k]]
    if "inner" in cfg:
        cfg["inner"] = _smooth(cfg["inner"])
    return cfg


def run_spline_grad(case):
    from vf import splineref
    r = R(case)
    fam, inv, n = case["family"], case["inverse"], case["n"]
    g = torch.Generator().manual_seed(case["seed"])
    K = 6
    params = splineref.random_params(fam, n, K, 1.5, g, tails=False)
    if case["flat_ends"]:
        for k in params:
            if "deriv" in k:
                params[k] = params[k] - 3.0
    fn = splineref.fn(fam, False)
    z = torch.rand(n, generator=g)
    z[: n // 3] = torch.rand(n // 3, generator=g) * 1e-3
    z[n // 3: 2 * n // 3] = 1 - torch.rand(n // 3 + (n % 3 > 0), generator=g)[: 2 * n // 3 - n // 3] * 1e-3

    def run(dt):
        zz = z.to(dt).clone().requires_grad_(True)
        pp = {k: v.to(dt) for k, v in params.items()}
        if inv:
            with torch.no_grad():
                src = fn(inputs=z.to(dt), inverse=False, **pp)[0].clamp(0, 1)
            zz = src.clone().requires_grad_(True)
        out, lad = fn(inputs=zz, inverse=inv, **pp)
        out.sum().backward()
        return out.detach(), zz.grad.detach(), zz.detach()
    try:
        o32, g32, in32 = run(torch.float32)
        o64, g64, in64 = run(torch.float64)
    except Exception as e:
        r.inconc("spline gradient driver failed: %r" % (e,))
        return r.done()
    r.ev(n)
    r.count("spline_gradient_points", n)
    det = dict(family=fam, inverse=inv, flat_ends=case["flat_ends"])
    interior = (in32 > 0) & (in32 < 1)            # clamp at the box ends has no derivative in this torch
    dead = interior & (g32 == 0) & torch.isfinite(g64) & (g64 > 0)
    if dead.any():
        k = int(dead.nonzero()[0])
        r.viol("missing_gradient", "spline %s %s: elements receive no input gradient in float32" % (fam, "inverse" if inv else "forward"),
               n_elements=int(dead.sum()), of=n, input=float(in32[k]), float64_gradient=float(g64[k]), **det)
    same = interior & ((o32.double() - o64).abs() <= 1e-4) & ((in32.double() - in64).abs() <= 1e-6) & torch.isfinite(g64) & (g64 > 0) & (g64 < 1e3)
    off = same & ((g32.double() - g64).abs() > 0.2 * g64 + 1e-3)
    r.worst("spline_f32_grad_off_fraction", float(off.float().mean()))
    if fam != "linear" and off.float().mean() > 1e-3:
        r.viol("f32_gradient", "spline %s %s: float32 input gradients disagree with float64 where the values agree" % (fam, "inverse" if inv else "forward"),
               fraction=float(off.float().mean()), **det)
    if bool((g32 != 0).any()):
        r.cell("spline_grad", fam, inv, case["flat_ends"])
    r.sample({"spline_grad": det, "points": n})
    return r.done()


def run_case(case):
    if case["kind"] == "spline_grad":
        return run_spline_grad(case)
    r = R(case)
    kind, cfg, seed, mode = case["kind"], case["cfg"], case["seed"], case["mode"]
    g = torch.Generator().manual_seed(seed)
    try:
        if kind == "transform":
            me = zoo.meta(cfg)
            model = zoo.make(cfg, case["policy"], seed, mode="eval", do_warm=not case.get("cold"))
            if case.get("final_bias") is not None:
                with torch.no_grad():
                    for name_, m_ in model.named_modules():
                        if name_.split(".")[-1] in ("final_layer", "l2") and getattr(m_, "bias", None) is not None:
                            m_.bias.add_(case["final_bias"])
            label = cfg["fam"]
            dirs = ["forward", "inverse"] if not case.get("cold") else ["forward"]
        elif kind == "dist":
            model = dzoo.build_dist(cfg, seed)
            label = "dist_" + cfg["dist"]
            me = None
            dirs = ["log_prob"] + (["sampling"] if cfg["dist"] == "cond_diag" else [])
        else:
            model = dzoo.build_flow(cfg, seed, policy=case["policy"])
            dzoo.warm_flow(model, cfg, seed)
            label = "flow_" + cfg["flow"]
            me = None
            # pathwise gradients exist where the base is reparameterised (normal families; not the mixture's discrete component
            # choice) - and not through UMNN inverses (open finding F-UMNN-INVERSE-GRAD)
            reparam = cfg.get("base", "standard") in ("standard", "cond_diag") and "umnn" not in str(cfg) and mode == "eval"
            dirs = ["log_prob"] + (["sampling"] if reparam else [])
    except Exception as e:
        r.inconc("construction failed %r" % (e,))
        return r.done()
    model.train(mode == "train")
    if mode == "train":
        # batch-norm in training mode: keep the running statistics out of the comparison (they are detached by design)
        pass
    B = 4
    if case.get("pre") == "inverse_first":
        try:
            with torch.no_grad():
                model.inverse(torch.randn(B, *me["shape"]), zoo.sample_context(me, B, seed + 3))
        except Exception:
            pass
    if kind == "transform" and seed % 3 == 0 and mode == "eval" and not case.get("cold") and \
            not any(getattr(m_, "using_cache", False) for m_ in model.modules()):
        # the model's FIRST calls (both directions) happen under torch.inference_mode() - a validation pass before fine-tuning:
        # whatever an object memoises on first use (index tensors, constants) is then an inference tensor, and every later
        # differentiable call that needs it fails ("Inference tensors cannot be saved for backward").  Weight caching (whose memo is
        # refilled by train()) and never-initialised ActNorm are left out: both keep what their first call computed by design.
        try:
            with torch.inference_mode():
                xi_ = zoo.sample_inputs(me, B, seed + 77, structured=False)
                ci_ = zoo.sample_context(me, B, seed + 78)
                yi_ = model(xi_, ci_)[0]
                model.inverse(yi_, ci_)
            r.count("inference_mode_first_calls")
        except Exception:
            r.count("inference_mode_first_calls_raised")
    if case.get("freeze"):
        for pi_, (_, p_) in enumerate(model.named_parameters()):
            if case["freeze"] == "all" or pi_ % 2 == 0:
                p_.requires_grad_(False)
        r.count("frozen_subjects")
    params = [(n, p) for n, p in model.named_parameters() if p.requires_grad]
    for direction in dirs:
        for attempt in range(3):
            if kind == "transform":
                x = zoo.sample_inputs(me, B, seed + 11 * attempt + 1, structured=False)
                ctx = zoo.sample_context(me, B, seed + 2)
                if direction == "inverse":
                    if "umnn" in me["tags"]:
                        # The UMNN inverse is a 25-step bisection that records no graph: finite differences of its (quantised)
                        # value decide nothing, but differentiability itself is observable - the transformed outputs of
                        # inverse(y) must depend on y for autograd.  Finding probe (open finding F-UMNN-INVERSE-GRAD).
                        try:
                            with torch.no_grad():
                                yq = copy.deepcopy(model).eval()(x, ctx)[0]
                            yq = yq.detach().clone().requires_grad_(True)
                            xo, lo = model.inverse(yq, ctx)
                            r.ev()
                            r.count("umnn_inverse_probes")
                            gy = torch.autograd.grad((xo.sum() + lo.sum()), yq, allow_unused=True)[0] if (
                                xo.requires_grad or lo.requires_grad) else None
                            tmask = torch.zeros(xo.shape[1], dtype=torch.bool)
                            if "mask" in cfg:
                                tmask[[i for i, mv in enumerate(cfg["mask"]) if mv > 0]] = True
                            else:
                                tmask[:] = True
                            dead = gy is None or bool((gy[:, tmask] == 0).all())
                            if dead:
                                r.viol("no_gradient", "UMNN inverse: the transformed outputs carry no gradient with respect to the inputs "
                                       "(bisection without a graph)", probe="umnn_inverse_grad", subject=label, mode=mode,
                                       outputs_require_grad=bool(xo.requires_grad), cfg=cfg)
                            else:
                                r.cell(label, "inverse", mode, "umnn_inverse_differentiable")
                        except Exception as e:
                            r.count("umnn_inverse_probe_raised")
                        break
                    try:
                        with torch.no_grad():
                            x = copy.deepcopy(model).eval()(x, ctx)[0]
                        if me["dom_out"][0] == "box":
                            x = x.clamp(me["dom_out"][1] + 1e-6, me["dom_out"][2] - 1e-6)
                    except Exception:
                        break
                    if not torch.isfinite(x).all():
                        break
            elif kind == "dist":
                x, ctx = dzoo.dist_inputs(cfg, B, seed + 11 * attempt + 1)
                if not dzoo.dist_meta(cfg)["needs_ctx"] and seed % 2:
                    ctx = ctx if cfg["dist"] == "mademog" else None
            else:
                x, ctx = dzoo.flow_inputs(cfg, B, seed + 11 * attempt + 1)
            status = check_direction(r, model, kind, label, direction, x, ctx, params, g, case, cfg, mode, me)
            if status != "kink":
                break
            r.count("kink_resamples")
        else:
            r.count("gave_up_on_kinks")
    # the Parameter objects handed out before the first call must still be the module's parameters afterwards (an optimiser
    # built before the first - possibly initialising - call keeps references to them)
    r.ev()
    r.count("parameter_identity_checks")
    now = dict(model.named_parameters())
    replaced = [n for n, p in params if now.get(n) is not p]
    if replaced:
        r.viol("parameter_replaced", "%s replaces its Parameter objects during a call (references held by an optimiser go stale)" % label,
               names=replaced[:4], mode=mode, cfg=cfg)
    # finite gradients at inputs containing exact zeros (forward)
    if kind == "transform" and me["dom_in"][0] in ("R", "Rb"):
        x0 = zoo.sample_inputs(me, B, seed + 77, structured=False)
        x0.reshape(B, -1)[:, 0] = 0.0
        x0 = x0.requires_grad_(True)
        ctx = zoo.sample_context(me, B, seed + 2)
        try:
            out, lad = model(x0, ctx)
            (out.sum() + lad.sum()).backward()
            r.ev()
            r.count("backward_calls")
            bad = [n for n, p in params if p.grad is not None and not torch.isfinite(p.grad).all()]
            if not torch.isfinite(x0.grad).all() or bad:
                r.viol("nonfinite_grad", "%s gradient is not finite at an input containing exact zeros" % label, params=bad[:4],
                       input_grad_finite=bool(torch.isfinite(x0.grad).all()), cfg=cfg, mode=mode)
            model.zero_grad(set_to_none=True)
        except Exception as e:
            r.count("zero_input_call_raised")
    r.sample({"subject": label, "mode": mode, "n_param_tensors": len(params), "directions": dirs})
    return r.done()


def functional(model, kind, direction, x, ctx, w, v):
    torch.manual_seed(20260927)      # dropout in training mode: the same masks in every evaluation (a deterministic function)
    if direction == "sampling":
        # the reparameterised sampling path under a fixed seed: samples and their log-probabilities as functions of the context
        # and the parameters (what a variational objective differentiates)
        sm, lp = model.sample_and_log_prob(3, ctx) if ctx is not None else model.sample_and_log_prob(3)
        ws = torch.linspace(-1.0, 1.0, sm.numel(), dtype=sm.dtype).reshape(sm.shape)
        vs = torch.linspace(0.5, -0.7, lp.numel(), dtype=lp.dtype).reshape(lp.shape)
        return (ws * sm).sum() + (vs * lp).sum()
    if kind in ("flow", "dist"):
        lp = model.log_prob(x, ctx)
        return (v * lp).sum()
    out, lad = (model.forward if direction == "forward" else model.inverse)(x, ctx)
    return (w * out).sum() + (v * lad).sum()


def check_direction(r, model, kind, label, direction, x, ctx, params, g, case, cfg, mode, me):
    det = dict(subject=label, direction=direction, mode=mode, cfg=cfg, policy=case.get("policy"), pre=case.get("pre"))
    # shapes of outputs for w
    # (shapes are probed on a throw-away copy: a no_grad call on the model itself would fill a weight cache with
    #  graph-free tensors and hide what the first differentiable call stores there)
    try:
        with torch.no_grad():
            if direction == "sampling":
                w = v = None
                functional(copy.deepcopy(model), kind, direction, x, ctx, w, v)      # sampler available at all?
            elif kind in ("flow", "dist"):
                w = None
                v = torch.randn(x.shape[0], generator=g)
            else:
                probe = copy.deepcopy(model)
                o, l = (probe.forward if direction == "forward" else probe.inverse)(x, ctx)
                w = torch.randn(o.shape, generator=g)
                v = torch.randn(l.shape, generator=g)
    except Exception as e:
        r.count("base_call_raised")
        return "skip"
    # ---- backward twice with fresh forwards
    grads = None
    for rep in range(2):
        xr = x.clone().requires_grad_(True)
        cr = ctx.clone().requires_grad_(True) if ctx is not None else None
        model.zero_grad(set_to_none=True)
        try:
            L = functional(model, kind, direction, xr, cr, w, v)
            if direction == "sampling" and not L.requires_grad:
                # nothing to differentiate (no parameters, a base that ignores the context) - unless the value does move when
                # the context / the parameters move, in which case the whole path has been cut
                with torch.no_grad():
                    base_val = float(L)
                    saved = [p_.detach().clone() for _, p_ in params]
                    for _, p_ in params:
                        p_.add_(1e-3 * torch.randn(p_.shape, generator=g).to(p_.dtype))
                    moved = float(functional(model, kind, direction, x, None if ctx is None else ctx + 1e-3, w, v))
                    for (_, p_), sv in zip(params, saved):
                        p_.copy_(sv)
                if abs(moved - base_val) > 1e-9 * (1 + abs(base_val)):
                    r.ev()
                    r.viol("missing_gradient", "%s sampling path: the result depends on context / parameters but carries no gradient" % label,
                           **det)
                    return "bad"
                r.count("sampling_path_nothing_to_differentiate")
                return "skip"
            L.backward()
        except Exception as e:
            r.ev()
            r.viol("backward_raises", "%s back-propagation raises" % label, repetition=rep, exc=repr(e)[:200], **det)
            return "bad"
        r.ev()
        r.count("backward_calls")
        L64val = float(L.detach())
        grads = {n: (p.grad.detach().clone() if p.grad is not None else None) for n, p in params}
        gx = xr.grad.detach().clone() if xr.grad is not None else None
        gc = cr.grad.detach().clone() if cr is not None and cr.grad is not None else None
    model.zero_grad(set_to_none=True)
    if direction == "sampling" and not (np.isfinite(L64val) and abs(L64val) < 1e9):
        # the drawn samples left the range in which float64 differences mean anything (overflowing inverses): not decidable
        r.count("sampling_path_saturated")
        return "skip"
    nonfin = [n for n, gr in grads.items() if gr is not None and not torch.isfinite(gr).all()]
    if nonfin or (gx is not None and not torch.isfinite(gx).all()):
        r.viol("nonfinite_grad", "%s gradient is not finite" % label, params=nonfin[:4], **det)
        return "bad"

    L0 = []

    def l0():
        if not L0:
            with torch.no_grad():
                L0.append(float(functional(model, kind, direction, x, ctx, w, v)))
        return L0[0]

    def fd(apply):
        """apply(t) sets the perturbation t*U; returns (dL at h, dL at h/2, one-sided skew at h, at h/2)"""
        vals, skews = [], []
        for hh in (H, H / 2):
            with torch.no_grad():
                apply(+hh)
                lp = float(functional(model, kind, direction, x, ctx, w, v)) if not apply.on_inputs else apply.eval_()
                apply(-hh)
                lm = float(functional(model, kind, direction, x, ctx, w, v)) if not apply.on_inputs else apply.eval_()
                apply(0.0)
            vals.append((lp - lm) / (2 * hh))
            skews.append(abs((lp - l0()) - (l0() - lm)) / hh)
        return vals[0], vals[1], skews[0], skews[1]

    def central(apply, hh):
        with torch.no_grad():
            apply(+hh)
            lp = float(functional(model, kind, direction, x, ctx, w, v))
            apply(-hh)
            lm = float(functional(model, kind, direction, x, ctx, w, v))
            apply(0.0)
        return (lp - lm) / (2 * hh)

    def judge(what, name, analytic, d1, d2, sk1=None, sk2=None, refine=None):
        r.ev()
        r.count("fd_comparisons")
        scale = max(abs(d2), abs(analytic), 1e-6)
        if not (np.isfinite(d1) and np.isfinite(d2)):
            return "kink"
        # (1e-4: near a singularity of the map - atanh / logit next to the end of their domain, slopes of 3e3 - the h^2 term
        #  of the central difference is 1e-3 of the slope and Richardson extrapolation leaves 1e-4; the two step sizes must
        #  agree ten times better than that before their extrapolation is trusted to 1e-5)
        if abs(d1 - d2) > 1e-4 * scale + 1e-9:
            return "kink"
        # a slope jump closer than h/2 to the point is straddled by both central differences (they agree with each other
        # and with neither one-sided derivative): the forward/backward one-sided differences then disagree by the jump at
        # every step size, whereas curvature makes them disagree in proportion to the step
        #  (magnitude floor below the verdict tolerance itself: a kink whose jump is 2e-5 of the slope - one element of an
        #   image crossing a knot of a piecewise-linear spline - is above RTOL but was below the former floor of 1e-4)
        if sk1 is not None and np.isfinite(sk2) and sk2 > 0.2 * RTOL * scale + 1e-9 and sk2 > 0.75 * sk1:
            r.count("kinks_inside_half_step")
            return "kink"
        d2_raw = d2
        d2 = (4 * d2 - d1) / 3          # Richardson extrapolation: O(h^4) truncation error
        # UMNN: the forward value is a 20-30 point Clenshaw-Curtis quadrature of a ReLU network while autograd returns
        # the integrand itself (declared approximation, 5e-2 in DESIGN.md; 1e-1 for the input direction)
        # (inputs: Leibniz' rule returns the integrand at x, the forward value is a 20-30 point quadrature of a ReLU network
        #  over [0, x]; the two derivatives were observed to differ by up to 21 % under the randn0.3 policy)
        rtol = (3.5e-1 if what == "inputs" else 2e-2) if "umnn" in label or "umnn" in str(cfg) else RTOL
        err = abs(analytic - d2) / scale
        r.worst("grad_err/tol", err / rtol)
        if err > rtol and abs(analytic - d2) > 1e-8 and abs(analytic - d2) <= 64 * 2.3e-16 * max(abs(l0()), 1.0) / (H / 2):
            # resolution of the finite difference itself: the functional is a float64 number of size |L0|, so a central difference
            # over 2h cannot resolve slopes below ~eps * |L0| / h (samples of a flow whose inverse overflows - LogTanh with a large
            # cut point maps noise of 5 to 1e17 - give differences that are exactly zero).  Only a discrepancy BELOW that floor is
            # declared undecidable, and only when the comparison would otherwise fail.
            r.count("fd_below_resolution_undecided")
            return "kink"
        if err > rtol and abs(analytic - d2) > 1e-8 and abs(d1 - d2_raw) > abs(analytic - d2) / 3:
            # the two step sizes disagree with each other by as much as they disagree with autograd: the truncation error is not
            # O(h^2) here (a jump of the SECOND derivative within h of the point - the quadratic spline is C1 only, and under a
            # parameter perturbation its knots move across the fixed noise value - leaves an O(h) error that extrapolation cannot
            # remove).  The finite difference decides nothing; a gradient that is really wrong is off by far more than the finite
            # differences are from each other.
            r.count("fd_self_inconsistent_undecided")
            return "kink"
        if err > rtol and abs(analytic - d2) > 1e-8 and refine is not None:
            # last resort before a verdict: central differences at much smaller steps.  A finite difference converges to the true
            # derivative as h -> 0 until rounding takes over (noise ~ eps * |L0| / h); the standard steps h, h/2 can both sit in a
            # region that is not smooth on their scale (a knot of a C1 spline that the perturbation moves across a fixed value:
            # observed 1e-3 ... 1e-5 relative at h = 1e-5, 4e-9 at h = 1e-7).  Autograd is accepted when a finer step whose noise
            # floor is below the tolerance reproduces it; a wrong gradient is reproduced by no step.
            for hf in (1e-6, 1e-7, 3e-8):
                if 8 * 2.3e-16 * max(abs(l0()), 1.0) / hf > 0.3 * rtol * scale:
                    break
                try:
                    df = refine(hf)
                except Exception:
                    break
                if np.isfinite(df) and abs(analytic - df) <= rtol * max(abs(df), abs(analytic), 1e-6):
                    r.count("fd_resolved_at_finer_step")
                    return "ok"
        if err > rtol and abs(analytic - d2) > 1e-8:
            r.viol("wrong_gradient", "%s gradient differs from finite differences" % label, what=what, name=name,
                   autograd=analytic, finite_difference=d2, rel_err=err, **det)
            return "bad"
        if abs(d2) > 1e-8:
            r.cell(label, direction, mode, what)
        return "ok"

    # ---- float32 twin: the gradients users actually get must agree with the float64 ones (norm-wise, 20 %:
    # float32 rounding amplified by squashing / steep splines reaches 5 %; a cut gradient path is off by 50-100 %)
    has_dropout = mode == "train" and any(isinstance(m, torch.nn.Dropout) and m.p > 0 for m in model.modules())
    if kind == "transform" and "umnn" not in label and "umnn" not in str(cfg) and not case.get("pre") and not has_dropout:
        try:
            m32 = copy.deepcopy(model).float()
            m32.zero_grad(set_to_none=True)
            x32 = x.float().requires_grad_(True)
            c32 = ctx.float().requires_grad_(True) if ctx is not None else None
            L32 = functional(m32, kind, direction, x32, c32, w.float(), v.float())
            L32.backward()
            with torch.no_grad():
                f64_ = model.forward if direction == "forward" else model.inverse
                f32_ = m32.forward if direction == "forward" else m32.inverse
                o64_, l64_ = f64_(x, ctx)
                o32_, l32_ = f32_(x.float(), ctx.float() if ctx is not None else None)
                ill = bool(((o32_.double() - o64_).abs() > 1e-3 * (1 + o64_.abs())).any()) or \
                    bool(((l32_.double() - l64_).abs() > 1e-2 * (1 + l64_.abs())).any())
            if ill or not abs(float(L32.detach()) - L64val) <= 1e-3 * (1 + abs(L64val)):
                # the float32 VALUE already differs (ill-conditioned item: an inverse slope of 1.7e4 moved x by 0.009):
                # its gradient says nothing about a cut path
                r.count("f32_twin_illconditioned")
                raise StopIteration
            r.ev()
            r.count("f32_gradient_comparisons")
            pairs = [("inputs", x32.grad, gx)]
            if not case.get("inputs_only"):
                g32 = {n: p.grad for n, p in m32.named_parameters()}
                both = [(g32[n], grads[n]) for n, _ in params if grads.get(n) is not None and g32.get(n) is not None]
                if both:
                    pairs.append(("parameters", torch.cat([a.reshape(-1) for a, _ in both]), torch.cat([b.reshape(-1) for _, b in both])))
            for what, a, b in pairs:
                if a is None or b is None or not torch.isfinite(b).all():
                    continue
                if not torch.isfinite(a).all():
                    r.viol("nonfinite_grad", "%s float32 gradient is not finite (float64 is)" % label, what=what, **det)
                    continue
                nb = float(b.norm())
                err = float((a.double() - b).norm())
                r.worst("f32_grad_relerr/tol", err / (0.2 * nb + 1e-3))
                # (a float64 gradient that is itself ~0 - a 1-feature Householder reflection is -1 whatever its vector - leaves
                #  only float32 cancellation noise, up to 1e-3 / |q| for tiny q, to compare: no information, not judged)
                if err > 0.2 * nb + 1e-3 and 1e-2 < nb < 1e6:
                    r.viol("f32_gradient", "%s float32 gradient disagrees with the float64 gradient" % label, what=what,
                           rel_err=err / max(nb, 1e-30), **det)
        except StopIteration:
            pass
        except Exception as e:
            r.count("f32_twin_raised")
    if case.get("inputs_only"):
        params = []
    # ---- all parameters jointly
    U = {n: torch.randn(p.shape, generator=g) for n, p in params}
    base = {n: p.detach().clone() for n, p in params}

    class ApplyParams:
        on_inputs = False

        def __init__(self, names):
            self.names = names

        def __call__(self, t):
            for n, p in params:
                if n in self.names:
                    p.copy_(base[n] + t * U[n])
    if params:
        ap = ApplyParams({n for n, _ in params})
        d1, d2, sk1, sk2 = fd(ap)
        analytic = sum(float((grads[n] * U[n]).sum()) for n, _ in params if grads[n] is not None)
        st = judge("all_params", "*", analytic, d1, d2, sk1, sk2, refine=lambda hf: central(ap, hf))
        if st != "ok":
            return st
        # ---- per tensor: correct and, where it influences the result, present
        names = [n for n, _ in params]
        if case["tier_"] == "quick" and len(names) > 8:
            idx = torch.randperm(len(names), generator=g)[:8].tolist()
            names = [names[i] for i in idx]
        for n in names:
            d1, d2, sk1, sk2 = fd(ApplyParams({n}))
            r.count("per_tensor_checks")
            if grads[n] is None:
                if np.isfinite(d2) and abs(d2) > 1e-7 and abs(d1 - d2) <= 1e-4 * abs(d2):
                    r.viol("missing_gradient", "%s a parameter that influences the result receives no gradient" % label,
                           name=n, finite_difference=d2, **det)
                    return "bad"
                continue
            st = judge("tensor", n, float((grads[n] * U[n]).sum()), d1, d2, sk1, sk2, refine=lambda hf, n=n: central(ApplyParams({n}), hf))
            if st == "kink":
                return st
            if st == "bad":
                return st
    # ---- inputs and context
    for what, base_t, grad_t in (("inputs", x, gx), ("context", ctx, gc)):
        if base_t is None:
            continue
        if what == "inputs" and ("umnn" in label or "umnn" in str(cfg)):
            # declared approximation: autograd returns Leibniz' rule (the integrand at x, exact for the continuous integral)
            # while the forward value is a 20-30 point quadrature of a ReLU network; their derivatives were observed to
            # differ by 20-70 % - not decidable by finite differences of the quadrature (finiteness is still required above)
            r.count("umnn_input_gradient_not_judged")
            continue
        Ux = torch.randn(base_t.shape, generator=g)
        vals, skews = [], []
        for hh in (H, H / 2):
            with torch.no_grad():
                try:
                    if what == "inputs":
                        lp = float(functional(model, kind, direction, x + hh * Ux, ctx, w, v))
                        lm = float(functional(model, kind, direction, x - hh * Ux, ctx, w, v))
                    else:
                        lp = float(functional(model, kind, direction, x, ctx + hh * Ux, w, v))
                        lm = float(functional(model, kind, direction, x, ctx - hh * Ux, w, v))
                except Exception:
                    lp = lm = float("nan")
            vals.append((lp - lm) / (2 * hh))
            skews.append(abs((lp - l0()) - (l0() - lm)) / hh)
        if grad_t is None:
            if np.isfinite(vals[1]) and abs(vals[1]) > 1e-7:
                r.viol("missing_gradient", "%s result depends on the %s but no gradient reaches them" % (label, what),
                       finite_difference=vals[1], **det)
                return "bad"
            continue
        def refine_in(hf, what=what, Ux=Ux):
            with torch.no_grad():
                if what == "inputs":
                    return (float(functional(model, kind, direction, x + hf * Ux, ctx, w, v)) -
                            float(functional(model, kind, direction, x - hf * Ux, ctx, w, v))) / (2 * hf)
                return (float(functional(model, kind, direction, x, ctx + hf * Ux, w, v)) -
                        float(functional(model, kind, direction, x, ctx - hf * Ux, w, v))) / (2 * hf)
        st = judge(what, what, float((grad_t * Ux).sum()), vals[0], vals[1], skews[0], skews[1], refine=refine_in)
        if st != "ok":
            return st
    return "ok"
