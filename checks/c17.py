"""C17 - out-of-domain inputs are rejected, in-domain inputs never fail.

Monitor: exception-type / finiteness oracle.  For every domain-restricted transform and direction a batch is built
whose elements are interior except ONE probe element at a random (row, feature[, h, w]) position; the probe sits
on a boundary, one ulp inside / outside, 1e-6 inside / outside, or far outside.  Expected: the library's
InputOutsideDomain (or a subclass) iff the probe is outside the mathematical domain of that direction; otherwise
no exception and only finite numbers.  Unconstrained splines must accept every finite input (identity outside the
tail bound).  Boxes / tail bounds of magnitudes 0.5 ... 1e6, float32 and float64, bare spline functions and the
coupling / autoregressive / CDF wrappers."""
import numpy as np
import torch

from vf import env, zoo, splineref
from vf.result import R

RULE = ("case = (domain-restricted transform or spline function, direction, box/tail bound magnitude, dtype, parameter scale); "
        "one evaluation = one call with a single probe element; a cell (target, direction, probe class, magnitude class, dtype) "
        "is non-trivial by construction (each probe class is either exactly on, just inside or outside a boundary)")
ASSUMPTIONS = ["mathematical domains: Exp^-1 x>0; Tanh^-1 |x|<1; Sigmoid^-1 / Logit / CauchyCDF^-1 x in [0,1]; bounded spline forward "
               "[left,right], inverse [bottom,top]; unconstrained splines: all finite reals"]
REQUIRED_COUNTS = ["accepted_probes", "rejected_probes", "tail_probes"]
BUDGET = {"case_timeout": {"quick": 300, "thorough": 1800}}

MAGS = [0.5, 1.0, 3.0, 16.0, 50.0, 1e2, 1e3, 1e4, 1e6]
ODD = [0.1, 0.3, 0.7, 1.1, 1.7, 2.2, 3.3]


def gen_cases(tier, seed):
    cases = []
    reps = 1 if tier == "quick" else 60
    for rep in range(reps):
        for world in ("f64", "f32"):
            for t in ("exp", "tanh", "sigmoid", "logit", "cauchycdf", "cauchycdfinv"):
                for shape in ([3], [2, 2, 2]):
                    cases.append({"kind": "simple", "target": t, "shape": shape, "world": world,
                                  "seed": env.subseed(seed, "c17", t, world, rep, shape), "cost": 1})
            for fam in ("linear", "quadratic", "cubic", "rq"):
                for mi, mag in enumerate(MAGS):
                    for ps in (0.0, 1.0, 3.0):
                        if world == "f32" and ps == 3.0:
                            continue
                        K = [1, 2, 5, 10][(mi + rep) % 4]
                        # bounded boxes of that magnitude: square, shifted, non-square
                        for bx in ([0.0, mag, 0.0, mag], [-mag, mag, -mag, mag], [-mag, 0.5 * mag, 2.0, 2.0 + 3 * mag]):
                            cases.append({"kind": "spline", "family": fam, "box": bx, "bins": K, "pscale": ps,
                                          "world": world, "seed": env.subseed(seed, "c17s", fam, mag, ps, world, rep, bx),
                                          "cost": 1})
                        cases.append({"kind": "spline", "family": fam, "box": None, "B": mag, "bins": K,
                                      "pscale": ps, "world": world,
                                      "seed": env.subseed(seed, "c17t", fam, mag, ps, world, rep), "cost": 1})
            if world == "f32":
                # double-precision inputs while the DEFAULT dtype is single precision (a float64 model in an ordinary process), bounds
                # that are not single-precision numbers: a bound that is turned into a default-dtype tensor before it is compared
                # moves by 1e-8, and an input sitting exactly on the (python float) bound is misjudged
                for fam in ("linear", "quadratic", "cubic", "rq"):
                    for mi, mag in enumerate((0.1, 0.3, 0.7, 1.1, 2.2)):
                        K = [1, 2, 5, 10][(mi + rep) % 4]
                        for bx in ([0.0, mag, 0.0, mag], [-mag, 0.9, -0.7, mag], None):
                            cases.append({"kind": "spline", "family": fam, "box": bx, "B": mag, "bins": K, "pscale": 1.0, "world": world,
                                          "in64": True, "seed": env.subseed(seed, "c17in64", fam, mag, rep, bx), "cost": 1})
            # "any batch size": one large batch (2e5 rows of one feature) with an input exactly on the upper bound - code paths chosen
            # by the number of elements
            for fam in ("linear", "quadratic", "cubic", "rq"):
                for mag in (1.0, 50.0):
                    cases.append({"kind": "big_batch", "family": fam, "B": mag, "bins": 10, "world": world,
                                  "seed": env.subseed(seed, "c17big", fam, mag, world, rep), "cost": 3})
            # "tail bounds and boxes of any magnitude": bounds whose SQUARE leaves the floating range (1.9e19 in float32, 1.4e154
            # in float64) - anything computed from squared box coordinates overflows although inputs and outputs are ordinary numbers
            for fam in ("linear", "quadratic", "cubic", "rq"):
                for mi, mag in enumerate([1e19, 3e19, 1e25, 1e30] + ([1e155, 1e160, 1e200] if world == "f64" else [])):
                    for ps in (0.0, 1.0):
                        K = [1, 2, 5, 10][(mi + rep) % 4]
                        cases.append({"kind": "spline", "family": fam, "box": None, "B": mag, "bins": K, "pscale": ps, "world": world,
                                      "seed": env.subseed(seed, "c17huge", fam, mag, ps, world, rep), "cost": 1})
                        cases.append({"kind": "spline", "family": fam, "box": [-mag, mag, -mag, mag], "bins": K, "pscale": ps,
                                      "world": world, "seed": env.subseed(seed, "c17hugeb", fam, mag, ps, world, rep), "cost": 1})
            # bounds that are not exactly representable: 0.1, 0.3, 1.1, 1.7, 2.2 round UP in float32, 0.7, 3.3 round down;
            # the domain of a float32 call is bounded by the rounded value (an input holding the bound itself is inside)
            for fam in ("linear", "quadratic", "cubic", "rq"):
                for mi, mag in enumerate(ODD):
                    K = [2, 5, 10, 3][(mi + rep) % 4]
                    for bx in ([0.0, mag, 0.0, mag], [-mag, mag, -mag, mag], [-mag, 2 * mag, 0.0, mag]):
                        cases.append({"kind": "spline", "family": fam, "box": bx, "bins": K, "pscale": 1.0,
                                      "world": world, "seed": env.subseed(seed, "c17o", fam, mag, world, rep, bx), "cost": 1})
                    cases.append({"kind": "spline", "family": fam, "box": None, "B": mag, "bins": K, "pscale": 1.0,
                                  "world": world, "seed": env.subseed(seed, "c17ot", fam, mag, world, rep), "cost": 1})
            for fam in ("cdf_linear", "cdf_quadratic", "cdf_cubic", "cdf_rq", "coupling_linear", "coupling_quadratic",
                        "coupling_cubic", "coupling_rq", "ar_linear", "ar_quadratic", "ar_cubic", "ar_rq"):
                for tails in (None, "linear"):
                    if fam in ("ar_linear", "ar_cubic") and tails:
                        continue
                    for mag in ([1.0] if tails is None else [1.0, 50.0, 1e3, 0.1, 1.7]):
                        cases.append({"kind": "wrapper", "fam": fam, "tails": tails, "B": mag, "world": world,
                                      "seed": env.subseed(seed, "c17w", fam, tails, mag, world, rep), "cost": 2})
    return cases


def probes(lo, hi, lo_closed, hi_closed, dtype):
    """[(value, inside?, class)] around a domain (lo, hi); either bound may be None (unbounded)."""
    out = []
    inf = float("inf")

    def t(v):
        return torch.tensor(v, dtype=dtype)
    for b, closed, inward in ((lo, lo_closed, +1), (hi, hi_closed, -1)):
        if b is None:
            continue
        bt = t(b)
        b_ = float(bt)
        scale = max(1.0, abs(b_))
        out.append((b_, closed, "on_boundary"))
        out.append((float(torch.nextafter(bt, t(inf * inward))), True, "ulp_inside"))
        out.append((float(torch.nextafter(bt, t(-inf * inward))), False, "ulp_outside"))
        e = 1e-6 if dtype == torch.float64 else 1e-4
        out.append((float(t(b_ + inward * e * scale)), True, "eps_inside"))
        out.append((float(t(b_ - inward * e * scale)), False, "eps_outside"))
        out.append((float(t(b_ - inward * 10 * scale)), False, "far_outside"))
    # sanity: classification of eps probes after rounding to dtype
    res = []
    for v, ins, cls in out:
        if lo is not None and hi is not None and cls in ("eps_inside",) and not (lo <= v <= hi):
            continue
        res.append((v, ins, cls))
    return res


def interior(shape, lo, hi, g, dtype, n=4):
    u = torch.rand([n] + list(shape), generator=g, dtype=torch.float64)
    if lo is None and hi is None:
        x = torch.randn([n] + list(shape), generator=g, dtype=torch.float64)
    elif lo is None:
        x = hi - 0.1 - 3 * u
    elif hi is None:
        x = lo + 0.1 + 3 * u
    else:
        x = lo + (hi - lo) * (0.1 + 0.8 * u)
    return x.to(dtype)


def judge(r, label, fn, x, inside, cls, meta_, magcls):
    from nflows.transforms.base import InputOutsideDomain
    r.ev()
    try:
        with torch.no_grad():
            out = fn(x)
        raised = None
    except InputOutsideDomain:
        raised = "domain"
    except Exception as e:
        raised = e
    det = dict(meta_, probe_class=cls, probe_inside=inside)
    if inside:
        r.count("accepted_probes")
        if raised == "domain":
            r.viol("rejected_in_domain", "%s rejects an in-domain input" % label, **det)
        elif raised is not None:
            r.viol("wrong_exception", "%s raises a non-domain exception on an in-domain input" % label,
                   exc=repr(raised)[:200], exc_type=type(raised).__name__, **det)
        else:
            o, l = out
            if not (torch.isfinite(o).all() and torch.isfinite(l).all()):
                r.viol("nonfinite", "%s returns non-finite numbers for an in-domain input" % label, **det)
            elif x.is_floating_point():
                # the same in-domain values as a caller may hold them: a leaf that requires grad, autograd recording on -
                # acceptance must not depend on being allowed to write into the argument
                for form, xv in (("requires_grad leaf", x.clone().requires_grad_(True)),):
                    try:
                        fn(xv)
                        r.count("accepted_argument_forms")
                    except InputOutsideDomain:
                        r.viol("rejected_in_domain", "%s rejects an in-domain input" % label, argument_form=form, **det)
                    except Exception as e:
                        r.viol("wrong_exception", "%s raises a non-domain exception on an in-domain input" % label, argument_form=form,
                               exc=repr(e)[:200], exc_type=type(e).__name__, **det)
    else:
        r.count("rejected_probes")
        if raised is None:
            r.viol("accepted_out_of_domain", "%s returns numbers for an out-of-domain input" % label, **det)
        elif raised != "domain":
            r.viol("wrong_exception", "%s raises a non-domain exception on an out-of-domain input" % label,
                   exc=repr(raised)[:200], exc_type=type(raised).__name__, **det)
    r.cell(label, cls, magcls, meta_.get("world"))


def place(xint, v, g, features=None):
    """puts v at a random position (restricted to the given feature indices of dim 1, if any)"""
    x = xint.clone()
    idx = [int(torch.randint(s, (1,), generator=g)) for s in x.shape]
    if features is not None:
        idx[1] = features[int(torch.randint(len(features), (1,), generator=g))]
    idx = tuple(idx)
    x[idx] = v
    return x, list(idx)


def run_case(case):
    r = R(case)
    dtype = torch.float64 if case.get("in64") else torch.get_default_dtype()
    g = torch.Generator().manual_seed(case["seed"])
    kind = case["kind"]
    if kind == "simple":
        from nflows import transforms as T
        from nflows.transforms.nonlinearities import CauchyCDF, CauchyCDFInverse
        t = case["target"]
        spec = {
            "exp": (T.Exp(), "inverse", 0.0, None, False, False),
            "tanh": (T.Tanh(), "inverse", -1.0, 1.0, False, False),
            "sigmoid": (T.Sigmoid(), "inverse", 0.0, 1.0, True, True),
            "logit": (T.Logit(), "forward", 0.0, 1.0, True, True),
            "cauchycdf": (CauchyCDF(), "inverse", 0.0, 1.0, True, True),
            "cauchycdfinv": (CauchyCDFInverse(), "forward", 0.0, 1.0, True, True),
        }[t]
        mod, direction, lo, hi, lc, hc = spec
        fn = getattr(mod, direction)
        for v, ins, cls in probes(lo, hi, lc, hc, dtype):
            xi = interior(case["shape"], lo, hi, g, dtype)
            x, idx = place(xi, v, g)
            judge(r, "%s.%s" % (t, direction), lambda z: fn(z), x, ins, cls,
                  {"target": t, "direction": direction, "probe": v, "position": idx, "world": case["world"]}, "-")
        # the unrestricted directions accept everything finite
        other = mod.forward if direction == "inverse" else mod.inverse
        xi = interior(case["shape"], None, None, g, dtype) * 3
        judge(r, "%s.%s" % (t, "forward" if direction == "inverse" else "inverse"), lambda z: other(z), xi, True, "any_real",
              {"target": t, "world": case["world"]}, "-")
        # "any batch size": a batch of one row (a batch without rows has no input to judge: not probed, see DESIGN section 7)
        judge(r, "%s.%s" % (t, direction), lambda z: fn(z), interior(case["shape"], lo, hi, g, dtype, n=1), True, "single_row",
              {"target": t, "world": case["world"], "batch": 1}, "-")
        r.sample({"target": t, "direction": direction, "domain": [lo, hi], "closed": [lc, hc]})
        return r.done()

    if kind == "big_batch":
        fam, K, Bt = case["family"], case["bins"], case["B"]
        n = 200000
        K = max(K, splineref.min_bins(fam, True))
        one = {k: v.to(dtype) for k, v in splineref.random_params(fam, 1, K, 1.0, g, tails=True).items()}
        params = {k: v.expand(n, *v.shape[1:]) for k, v in one.items()}
        fn = splineref.fn(fam, True)
        for direction in ("forward", "inverse"):
            inv = direction == "inverse"
            x = (torch.rand(n, generator=g, dtype=torch.float64) * 2 - 1).to(dtype) * Bt
            x[7], x[n // 2], x[n - 1] = Bt, -Bt, Bt
            r.ev()
            r.count("tail_probes")
            try:
                with torch.no_grad():
                    o, l = fn(inputs=x, inverse=inv, tail_bound=Bt, tails="linear", **params)
            except Exception as e:
                r.viol("rejects_in_domain", "unconstrained_%s.%s rejects an in-domain input" % (fam, direction), exc=repr(e)[:200],
                       exc_type=type(e).__name__, batch=n, B=Bt, world=case["world"])
                continue
            if not (torch.isfinite(o).all() and torch.isfinite(l).all()):
                r.viol("nonfinite", "unconstrained_%s.%s returns non-finite values for in-domain inputs" % (fam, direction), batch=n, B=Bt,
                       world=case["world"])
            else:
                r.cell("unconstrained_%s.%s" % (fam, direction), "big_batch", "B=%g" % Bt, case["world"])
        r.sample({"family": fam, "B": Bt, "batch": n})
        return r.done()
    if kind == "spline":
        fam, K, ps = case["family"], case["bins"], case["pscale"]
        n = 6
        bx = case["box"]
        tails = bx is None
        K = max(K, splineref.min_bins(fam, tails))
        params = {k: v.to(dtype) for k, v in splineref.random_params(fam, n, K, ps, g, tails=tails).items()}
        if tails:
            B = case["B"]
            fn = splineref.fn(fam, True)
            kw = {"tail_bound": B, "tails": "linear"}
            magcls = "B=%g" % B
            for direction in ("forward", "inverse"):
                inv = direction == "inverse"
                hv = 1e30 if B < 1e29 else (3e38 if dtype == torch.float32 else 1e300)
                for v, _ins, cls in probes(-B, B, True, True, dtype) + [(hv, True, "huge"), (-hv, True, "huge")]:
                    xi = interior([], -B, B, g, dtype, n=n)
                    x, idx = place(xi, v, g)
                    r.count("tail_probes")
                    judge(r, "unconstrained_%s.%s" % (fam, direction), lambda z: fn(inputs=z, inverse=inv, **params, **kw), x,
                          True, cls, {"family": fam, "direction": direction, "B": B, "bins": K, "pscale": ps, "probe": v,
                                      "position": idx, "world": case["world"]}, magcls)
                    # outside the bound the map is the identity
                    # (compared in the dtype of the call: a float32 tensor holding 2.2 holds 2.2000000477, which IS the bound)
                    if bool(torch.tensor(abs(v), dtype=dtype) > torch.tensor(B, dtype=dtype)):
                        try:
                            with torch.no_grad():
                                o, l = fn(inputs=x, inverse=inv, **params, **kw)
                            if float(o[tuple(idx)]) != float(x[tuple(idx)]) or float(l[tuple(idx)]) != 0.0:
                                r.viol("tails_identity", "unconstrained_%s is not the identity outside the tail bound" % fam,
                                       probe=v, got=float(o[tuple(idx)]), lad=float(l[tuple(idx)]), B=B, world=case["world"])
                        except Exception:
                            pass
        else:
            left, right, bottom, top = bx
            fn = splineref.fn(fam, False)
            kw = {"left": left, "right": right, "bottom": bottom, "top": top}
            magcls = "mag=%g" % max(abs(v) for v in bx)
            r.count("tail_probes", 0)
            for direction, lo, hi in (("forward", left, right), ("inverse", bottom, top)):
                inv = direction == "inverse"
                for v, ins, cls in probes(lo, hi, True, True, dtype):
                    xi = interior([], lo, hi, g, dtype, n=n)
                    x, idx = place(xi, v, g)
                    judge(r, "%s_spline.%s" % (fam, direction), lambda z: fn(inputs=z, inverse=inv, **params, **kw), x, ins, cls,
                          {"family": fam, "direction": direction, "box": bx, "bins": K, "pscale": ps, "probe": v,
                           "position": idx, "world": case["world"],
                           "square_box": abs((right - left) - (top - bottom)) < 1e-12 and left == bottom}, magcls)
        # "any batch size": one row sitting on the upper end of the domain
        for direction in ("forward", "inverse"):
            inv = direction == "inverse"
            p1 = {k: v[:1] for k, v in params.items()}
            top_ = case["B"] if tails else (bx[3] if inv else bx[1])
            nm = ("unconstrained_%s.%s" if tails else "%s_spline.%s") % (fam, direction)
            judge(r, nm, lambda z: fn(inputs=z, inverse=inv, **p1, **kw), torch.tensor([top_], dtype=dtype), True, "single_row",
                  {"family": fam, "direction": direction, "box": bx, "B": case.get("B"), "bins": K, "world": case["world"], "batch": 1},
                  magcls)
        r.sample({"family": fam, "box": bx, "B": case.get("B"), "bins": K, "pscale": ps, "world": case["world"]})
        return r.done()

    # wrappers
    fam, tails, B = case["fam"], case["tails"], case["B"]
    rng = np.random.default_rng(case["seed"])
    cfg = zoo.FAM[fam].sample_cfg(rng, "quick")
    if "tails" in cfg:
        cfg["tails"] = tails
        cfg["B"] = B
    cfg["uncond"] = False
    if len(cfg["shape"]) == 3:
        cfg["shape"] = [max(2, cfg["shape"][0])] + cfg["shape"][1:]
    me = zoo.meta(cfg)
    model = zoo.make(cfg, "randn1", case["seed"])
    bounded = me["dom_in"][0] == "box"
    lo, hi = (me["dom_in"][1], me["dom_in"][2]) if bounded else (-B, B)
    ctx = zoo.sample_context(me, 4, case["seed"] + 1)
    magcls = "B=%g" % B if not bounded else "unit"
    # couplings restrict only their TRANSFORMED features (identity features pass through and feed the conditioner)
    feats = [i for i, m in enumerate(cfg["mask"]) if m > 0] if "mask" in cfg else None
    for direction in ("forward", "inverse"):
        fn = model.forward if direction == "forward" else model.inverse
        pr = probes(lo, hi, True, True, dtype)
        if not bounded:
            pr = [(v, True, c) for v, _i, c in pr if abs(v) <= 12 * B] + [(3 * B + 1, True, "tail")]
        for v, ins, cls in pr:
            # other elements moderate (a conditioner fed values of size 1e3 saturates its outputs - not this property)
            xi = interior(cfg["shape"], max(lo, -3.0), min(hi, 3.0), g, dtype)
            x, idx = place(xi, v, g, feats)
            if not bounded:
                r.count("tail_probes")
            judge(r, "%s(%s).%s" % (fam, "tails" if tails else "bounded", direction), lambda z: fn(z, ctx), x, ins, cls,
                  {"fam": fam, "tails": tails, "B": B, "direction": direction, "probe": v, "position": idx,
                   "world": case["world"], "cfg": cfg}, magcls)
    r.sample({"wrapper": fam, "tails": tails, "B": B, "shape": cfg["shape"], "world": case["world"]})
    return r.done()
