"""C18 - the distribution interface keeps its documented shape and argument contract.

Monitor: icontract post-conditions (named predicates, explicit error class) installed on the REAL
Distribution.log_prob / sample / sample_and_log_prob (class level, so every Distribution and Flow goes through
them, including the library's internal calls), driven over all distribution / flow classes x num_samples x
batch_size (dividing and not) x context (none, k rows, with embedding net) x event shapes; plus the documented
argument rejections (ValueError for mismatching context rows, TypeError for non-positive / non-integer counts)
and a distribution test that batched generation neither duplicates nor changes the samples' law."""
import numpy as np
import torch

from vf import env, dzoo
from vf.result import R

RULE = ("subject = distribution class x event shape / flow (generic with and without embedding net, MaskedAutoregressiveFlow, "
        "SimpleRealNVP) x context rows x num_samples x batch_size; one evaluation = one contract evaluation on a real call; a cell "
        "(subject, operation, context?, batch_size class: none | divides | does-not-divide | larger) is non-trivial when the call "
        "returned a tensor whose shape was checked against the documented one")
ASSUMPTIONS = ["documented shapes: log_prob -> [rows]; sample(n) -> [n, *event]; sample(n, ctx) -> [rows, n, *event]; "
               "sample_and_log_prob -> the same plus [n] / [rows, n]", "bool is an int in Python: True as a sample count is not probed"]
REQUIRED_COUNTS = ["contract_evaluations", "rejection_probes", "batched_sampling_calls"]
BUDGET = {"case_timeout": {"quick": 300, "thorough": 2400}}


class ContractBroken(Exception):
    pass


def gen_cases(tier, seed):
    rng = np.random.default_rng(seed + 71)
    cases = []
    kinds = ["standard", "diag", "cond_diag", "bernoulli", "mademog"]
    n = 12 if tier == "quick" else 800
    for k in kinds:
        for i in range(n):
            cases.append({"kind": "dist", "cfg": dzoo.sample_dist_cfg(rng, [k]), "seed": env.subseed(seed, "c18", k, i),
                          "world": "f32" if i % 2 else "f64", "cost": 1})
    for i in range(40 if tier == "quick" else 3000):
        cases.append({"kind": "flow", "cfg": dzoo.sample_flow_cfg(rng), "seed": env.subseed(seed, "c18f", i),
                      "world": "f32" if i % 2 else "f64", "cost": 3})
    # flows whose transform changes the event shape, with and without context (every run)
    for i, (f, ctx) in enumerate(((2, 2), (3, 2), (2, 0), (3, 0))):
        cases.append({"kind": "flow", "cfg": {"flow": "image", "C": 1 + i % 2, "H": f * (1 + i % 2), "W": f * 2, "factor": f, "ctx": ctx,
                                              "actnorm": bool(i % 2), "conv": True},
                      "seed": env.subseed(seed, "c18img", i), "world": "f32" if i % 2 else "f64", "cost": 3})
    # contexts whose items are scalars (class labels of shape [rows], no feature axis), fed to an nn.Embedding: still one context
    # item per row
    for i in range(6 if tier == "quick" else 120):
        cases.append({"kind": "labels", "variant": i % 3, "D": 1 + i % 4, "K": 3 + i % 3, "cfg": {"labels": i % 3},
                      "seed": env.subseed(seed, "c18lab", i), "world": "f32" if i % 2 else "f64", "cost": 2})
    cases.append({"kind": "suite", "seed": env.subseed(seed, "c18suite"), "world": "f32", "cost": 30})
    return cases


def run_labels(case):
    """Scalar context items: labels of shape [rows].  StandardNormal only reads the row count; a Flow embeds them with nn.Embedding
    and conditions its base (variant 1) or its transform (variant 2) on the embedding."""
    from nflows.distributions.normal import StandardNormal, ConditionalDiagonalNormal
    from nflows.flows.base import Flow
    from nflows import transforms as T
    r = R(case)
    seed, D, K, variant = case["seed"], case["D"], case["K"], case["variant"]
    counter, expect = {"n": 0}, {}
    orig = install(counter, expect)
    try:
        torch.manual_seed(seed)
        if variant == 0:
            obj, label = StandardNormal([D]), "dist_standard(label context)"
        elif variant == 1:
            obj = Flow(T.PointwiseAffineTransform(0.3, 1.7), ConditionalDiagonalNormal([D], context_encoder=torch.nn.Linear(4, 2 * D)),
                       embedding_net=torch.nn.Embedding(K, 4))
            label = "flow(label context -> embedding -> conditional base)"
        else:
            obj = Flow(T.MaskedAffineAutoregressiveTransform(features=D, hidden_features=8, context_features=4),
                       StandardNormal([D]), embedding_net=torch.nn.Embedding(K, 4))
            label = "flow(label context -> embedding -> conditional transform)"
        obj.eval()
        expect[id(obj)] = (D,)
        for rows in (1, 2, 3, 5):
            lab = torch.randint(K, (rows,), generator=torch.Generator().manual_seed(seed + rows))
            x = torch.randn(rows, D)
            det = dict(subject=label, rows=rows, context_shape=[rows])
            calls_ = [("log_prob", lambda: obj.log_prob(x, lab), (rows,))]
            for n in (1, 2, 4):
                calls_.append(("sample", lambda n=n: obj.sample(n, lab), (rows, n, D)))
                calls_.append(("sample(batch_size)", lambda n=n: obj.sample(n, lab, batch_size=3), (rows, n, D)))
                calls_.append(("sample_and_log_prob", lambda n=n: obj.sample_and_log_prob(n, lab), (rows, n, D)))
            for op, fn, want in calls_:
                before = counter["n"]
                r.ev()
                try:
                    with torch.no_grad():
                        out = fn()
                except ContractBroken as e:
                    r.viol("shape_contract", "%s.%s returns a result that breaks the documented shape contract" % (label, op),
                           contract=str(e)[:300], **det)
                    continue
                except Exception as e:
                    r.viol("raises_on_valid_call", "%s.%s raises on a valid call" % (label, op), exc=repr(e)[:250],
                           exc_type=type(e).__name__, **det)
                    continue
                r.count("contract_evaluations", counter["n"] - before)
                first = out[0] if isinstance(out, tuple) else out
                if tuple(first.shape) != tuple(want):
                    r.viol("shape_contract", "%s.%s returns a result that breaks the documented shape contract" % (label, op),
                           got=list(first.shape), want=list(want), **det)
                elif isinstance(out, tuple) and tuple(out[1].shape) != tuple(want[:2]):
                    r.viol("shape_contract", "%s.%s returns a result that breaks the documented shape contract" % (label, op),
                           got=list(out[1].shape), want=list(want[:2]), **det)
                else:
                    r.cell(label, op, rows > 1)
                r.count("batched_sampling_calls" if "batch" in op else "label_context_calls")
        r.count("rejection_probes", 0)
        r.sample({"subject": label, "contract_evaluations": counter["n"]})
    except Exception as e:
        r.inconc("harness failure: %r" % (e,))
    finally:
        uninstall(orig)
    return r.done()


def run_suite(case):
    """the repository's own tests as a workload for the shape contracts"""
    from vf import suite
    r = R(case)
    rec, err = suite.run()
    if rec is None:
        r.inconc("suite workload: %s" % err)
        return r.done()
    r.ev(rec["shape_checks"])
    r.count("suite_shape_checks", rec["shape_checks"])
    r.count("contract_evaluations", rec["shape_checks"])
    for v in rec["violations"]:
        if v["kind"] in ("log_prob_shape", "sample_shape"):
            r.viol("shape_contract", "%s.%s returns a result that breaks the documented shape contract" % (v["cls"].split(".")[-1], v["method"]),
                   workload="repository test-suite", test=v.get("test"), got=v.get("got"), lead=v.get("lead"), rows=v.get("rows"))
    for k in sorted(rec["classes"]):
        if k.rsplit(".", 1)[-1] in ("log_prob", "sample", "sample_and_log_prob"):
            r.cell("suite", k)
    r.sample({"suite_workload": {"calls": rec["calls"], "shape_checks": rec["shape_checks"]}})
    return r.done()


def install(counter, expect):
    """class-level icontract wrappers; `expect` is a dict the driver fills before each call"""
    import icontract
    from nflows.distributions.base import Distribution

    def log_prob_shape(inputs, result):
        counter["n"] += 1
        rows = torch.as_tensor(inputs).shape[0]
        return isinstance(result, torch.Tensor) and tuple(result.shape) == (rows,)

    def sample_shape(self, num_samples, result, context=None, batch_size=None):
        counter["n"] += 1
        if not isinstance(result, torch.Tensor):
            return False
        ev = expect.get(id(self))
        lead = (num_samples,) if context is None else (torch.as_tensor(context).shape[0], num_samples)
        if tuple(result.shape[:len(lead)]) != lead:
            return False
        return ev is None or tuple(result.shape[len(lead):]) == tuple(ev)

    def salp_shape(self, num_samples, result, context=None):
        counter["n"] += 1
        if not (isinstance(result, tuple) and len(result) == 2):
            return False
        s, lp = result
        lead = (num_samples,) if context is None else (torch.as_tensor(context).shape[0], num_samples)
        ev = expect.get(id(self))
        ok = tuple(s.shape[:len(lead)]) == lead and tuple(lp.shape) == lead
        return ok and (ev is None or tuple(s.shape[len(lead):]) == tuple(ev))

    orig = {}
    for name, post in (("log_prob", log_prob_shape), ("sample", sample_shape), ("sample_and_log_prob", salp_shape)):
        orig[name] = Distribution.__dict__[name]
        setattr(Distribution, name, icontract.ensure(post, error=ContractBroken)(orig[name]))
    # Flow overrides sample_and_log_prob
    from nflows.flows.base import Flow
    orig["flow_salp"] = Flow.__dict__["sample_and_log_prob"]
    Flow.sample_and_log_prob = icontract.ensure(salp_shape, error=ContractBroken)(orig["flow_salp"])
    return orig


def uninstall(orig):
    from nflows.distributions.base import Distribution
    from nflows.flows.base import Flow
    for name in ("log_prob", "sample", "sample_and_log_prob"):
        setattr(Distribution, name, orig[name])
    Flow.sample_and_log_prob = orig["flow_salp"]


def run_case(case):
    if case["kind"] == "suite":
        return run_suite(case)
    if case["kind"] == "labels":
        return run_labels(case)
    r = R(case)
    kind, cfg, seed = case["kind"], case["cfg"], case["seed"]
    counter, expect = {"n": 0}, {}
    orig = install(counter, expect)
    try:
        if kind == "dist":
            obj = dzoo.build_dist(cfg, seed)
            me = dzoo.dist_meta(cfg)
            label = "dist_" + cfg["dist"]
            can_sample = me["can_sample"]
            mk = lambda n, s: dzoo.dist_inputs(cfg, n, s)  # noqa: E731
        else:
            obj = dzoo.build_flow(cfg, seed)
            dzoo.warm_flow(obj, cfg, seed)
            me = dzoo.flow_meta(cfg)
            label = "flow_" + cfg["flow"] + ("_embed" if cfg.get("embed") else "")
            can_sample = True
            mk = lambda n, s: dzoo.flow_inputs(cfg, n, s)  # noqa: E731
        obj.eval()
        event = tuple(me["shape"])
        expect[id(obj)] = event
        needs_ctx = me["needs_ctx"]
        det = dict(subject=label, cfg=cfg)

        def attempt(op, fn, cell_extra):
            before = counter["n"]
            r.ev()
            try:
                with torch.no_grad():
                    out = fn()
            except ContractBroken as e:
                r.viol("shape_contract", "%s.%s returns a result that breaks the documented shape contract" % (label, op),
                       contract=str(e)[:300], **dict(det, **cell_extra))
                return None
            except Exception as e:
                r.viol("raises_on_valid_call", "%s.%s raises on a valid call" % (label, op), exc=repr(e)[:250],
                       exc_type=type(e).__name__, **dict(det, **cell_extra))
                return None
            got = counter["n"] - before
            r.count("contract_evaluations", got)
            if got:
                r.cell(label, op, *cell_extra.values())
            return out

        ctx_rows_opts = ([None] if not needs_ctx else []) + ([1, 3] if me["ctx_shape"] else [])
        for rows in ctx_rows_opts:
            x, c = mk(rows or 4, seed + 1)
            if rows is None:
                c = None
            # log_prob
            attempt("log_prob", lambda: obj.log_prob(x, c), {"ctx": rows is not None})
            if not can_sample:
                continue
            for n in (1, 2, 5, 7):
                s = attempt("sample", lambda: obj.sample(n, c), {"ctx": rows is not None, "bs": "none"})
                attempt("sample_and_log_prob", lambda: obj.sample_and_log_prob(n, c), {"ctx": rows is not None})
                for b in (1, 2, 3, 5, 7, 8):
                    cls = "divides" if n % b == 0 else ("larger" if b > n else "not_dividing")
                    r.count("batched_sampling_calls")
                    sb = attempt("sample(batch_size)", lambda: obj.sample(n, c, batch_size=b),
                                 {"ctx": rows is not None, "bs": cls})
                    if sb is not None and sb.is_floating_point() and not me.get("discrete") and sb.numel() > 0:
                        # batching must not duplicate draws: equal samples at different indices have probability zero
                        flat = sb.reshape(-1, int(np.prod(event)) if event else 1) if rows is None else \
                            sb.reshape(sb.shape[0] * sb.shape[1], -1)
                        if rows is not None:
                            # compare within each context row
                            for k in range(sb.shape[0]):
                                rowflat = sb[k].reshape(sb.shape[1], -1)
                                # overflowed draws (LogTanh's inverse is exp(y / 0.013) for cut 3.5) are all "equal to inf"
                                rowflat = rowflat[torch.isfinite(rowflat).all(1)]
                                if rowflat.shape[0] > 1 and len(torch.unique(rowflat, dim=0)) < rowflat.shape[0]:
                                    r.viol("duplicated_draws", "%s.sample with batch_size repeats draws" % label,
                                           num_samples=n, batch_size=b, **det)
                                    break
                        elif int(torch.isfinite(flat).all(1).sum()) > 1 and \
                                len(torch.unique(flat[torch.isfinite(flat).all(1)], dim=0)) < int(torch.isfinite(flat).all(1).sum()):
                            r.viol("duplicated_draws", "%s.sample with batch_size repeats draws" % label, num_samples=n,
                                   batch_size=b, **det)
            # law unchanged by batching (coarse two-sample test on the first coordinate; alpha ~ 1e-9)
            if not me.get("discrete"):
                try:
                    with torch.no_grad():
                        torch.manual_seed(seed)
                        a = obj.sample(1500, c)
                        b_ = obj.sample(1500, c, batch_size=64)
                    a1 = a.reshape(-1, a.shape[-1] if a.dim() > 1 else 1)[:, 0] if rows is None else a[0].reshape(1500, -1)[:, 0]
                    b1 = b_.reshape(-1, b_.shape[-1] if b_.dim() > 1 else 1)[:, 0] if rows is None else b_[0].reshape(1500, -1)[:, 0]
                    if a1.shape == b1.shape:
                        za, zb = torch.sort(a1).values, torch.sort(b1).values
                        allv = torch.cat([za, zb])
                        cdfa = torch.searchsorted(za, allv, right=True).double() / len(za)
                        cdfb = torch.searchsorted(zb, allv, right=True).double() / len(zb)
                        Dks = float((cdfa - cdfb).abs().max())
                        r.worst("ks_batched_vs_unbatched/crit", Dks / 0.119)
                        r.ev()
                        if Dks > 0.119:        # sqrt(-ln(1e-9/2)/2 * 2/1500)
                            r.viol("batched_law_differs", "%s.sample with batch_size changes the distribution of the samples" % label,
                                   ks=Dks, **det)
                except Exception:
                    pass
        # ---- StandardNormal documents that only the SIZE of a context matters: any tensor with the right number of rows
        #      (class labels, a mask, another float width) must do
        if kind == "dist" and cfg["dist"] == "standard":
            for cname, cc_ in (("int64", torch.arange(6).reshape(3, 2)), ("bool", torch.tensor([[True], [False], [True]])),
                               ("float64", torch.zeros(3, 2, dtype=torch.float64)), ("float32", torch.zeros(3, 2, dtype=torch.float32))):
                out_ = attempt("sample(context dtype)", lambda: obj.sample(2, cc_), {"ctx": cname, "bs": "none"})
                attempt("sample_and_log_prob(context dtype)", lambda: obj.sample_and_log_prob(2, cc_), {"ctx": cname})
                if out_ is not None and out_.dtype != torch.get_default_dtype():
                    r.viol("shape_contract", "%s.sample draws in the dtype of the context, whose values are documented as ignored" % label,
                           context_dtype=cname, got=str(out_.dtype), **det)
        # ---- documented rejections
        x, c = mk(3, seed + 2)
        if me["ctx_shape"]:
            # every pair of differing row counts, in particular a single context row against several input rows (which would
            # broadcast silently) and a single input row against several context rows
            for nx_, nc_ in ((4, 3), (2, 1), (6, 1), (3, 1), (1, 3), (1, 2), (2, 3), (6, 3), (5, 2), (3, 5)):
                xk, _ = mk(nx_, seed + 3)
                _, ck = mk(nc_, seed + 4)
                r.count("rejection_probes")
                detk = dict(det, input_rows=nx_, context_rows=nc_)
                try:
                    obj.log_prob(xk, ck)
                    r.viol("accepts_mismatching_context", "%s.log_prob accepts a context whose row count differs from the inputs" % label, **detk)
                except ValueError:
                    pass
                except ContractBroken:
                    r.viol("accepts_mismatching_context", "%s.log_prob accepts a context whose row count differs from the inputs" % label, **detk)
                except Exception as e:
                    r.viol("wrong_rejection", "%s.log_prob rejects a mismatching context with %s instead of ValueError" % (label, type(e).__name__),
                           exc=repr(e)[:200], **detk)
        if can_sample:
            cc = c if needs_ctx else None
            # a bad count must be rejected whatever the other count is (a negative num_samples that batch_size does not divide,
            # a bad batch_size larger / smaller than num_samples, ...)
            probes = []
            for bad in (0, -1, -3, -7, 2.0, 2.5, "3", None):
                for other in (None, 2, 3, 5):
                    probes.append(("num_samples", bad, dict(batch_size=other), lambda b=bad, o=other: obj.sample(b, cc, batch_size=o)))
            for bad in (0, -1, -3, 2.0, 2.5, "3"):
                for other in (1, 4, 7):
                    probes.append(("batch_size", bad, dict(num_samples=other), lambda b=bad, o=other: obj.sample(o, cc, batch_size=b)))
            # the same counts through sample_and_log_prob (which validates on its own path in a Flow: embedding, base, transform)
            for bad in (0, -1, -3, 2.0, 2.5, "3", None):
                probes.append(("num_samples (sample_and_log_prob)", bad, {}, lambda b=bad: obj.sample_and_log_prob(b, cc)))
            for which, bad, extra, call in probes:
                r.count("rejection_probes")
                try:
                    out_ = call()
                    r.viol("accepts_bad_count", "%s.sample accepts a non-positive / non-integer %s" % (label, which), value=repr(bad),
                           other=extra, returned_shape=list(getattr(out_, "shape", [])), **det)
                except TypeError:
                    pass
                except ContractBroken:
                    r.viol("accepts_bad_count", "%s.sample accepts a non-positive / non-integer %s" % (label, which), value=repr(bad),
                           other=extra, **det)
                except Exception as e:
                    r.viol("wrong_rejection", "%s.sample rejects a bad %s with %s instead of TypeError" % (label, which, type(e).__name__),
                           value=repr(bad), other=extra, exc=repr(e)[:200], **det)
        r.sample({"subject": label, "event_shape": list(event), "contract_evaluations": counter["n"]})
    except Exception as e:
        r.inconc("harness failure: %r" % (e,))
    finally:
        uninstall(orig)
    return r.done()
