"""C19 - single precision agrees with double precision and stays finite; results carry the dtype of the inputs.

Monitor: dtype twin.  Every model M is built in the float32 world users run, M64 = deepcopy(M).double() is its
float64 twin (same parameters, exactly representable).  forward / inverse are evaluated on x and x.double() and
compared with a bound made of single-precision rounding of the result plus rounding of the inputs amplified by
the LOCAL conditioning measured on the float64 twin (item Jacobian norm for the outputs, a finite-difference
sensitivity for the log-det).  All float32 results must be finite, no exception may be raised, and outputs and
log-dets must have the dtype of the inputs in both worlds.  The cancellation-prone spline formulas are
additionally driven element-wise with 1e5-1e6 points per family and direction (rare-input failures are the point)."""
import copy

import numpy as np
import torch

from vf import env, zoo, dzoo, splineref
from vf.result import R

RULE = ("subject = transform family x configuration x moderate parameter policy (fresh, randn0.3, randn1) x in-domain inputs with |x| "
        "<= 6 / inside boxes (structured points included) / flow; one evaluation = one batch item (zoo) or one element (spline "
        "functions) compared between the float32 model and its float64 twin; a cell (family, direction, policy, 2-D/image) is "
        "non-trivial when float32 and float64 results differ at all (the comparison is not between identical numbers)")
ASSUMPTIONS = ["bound: 64 eps32 (1+|ref|) + 16 eps32 |J|_inf (1+|x|) for outputs; 64 eps32 D (1+|ref|) + 16 eps32 S (1+|x|) for log-dets, "
               "J and S (sensitivity of the log-det) measured on the float64 twin", "items whose float64 Jacobian has cond > 1e6 are skipped (counted)"]
REQUIRED_COUNTS = ["twin_items", "dtype_checks", "spline_points", "wide_linear_items", "late_conversion_checks", "dist_twin_items"]
BUDGET = {"case_timeout": {"quick": 400, "thorough": 3000}}
E32 = 1.1920929e-07


def gen_cases(tier, seed):
    rng = np.random.default_rng(seed + 61)
    cases = []
    nrand = 3 if tier == "quick" else 150
    for fam in zoo.ALL_FAMS:
        cfgs = zoo.configs([fam], tier, seed + 19, nrand)
        for ci, cfg in enumerate(cfgs):
            pol = ["fresh", "randn0.3", "randn1"][ci % 3]
            cases.append({"kind": "zoo", "cfg": cfg, "policy": pol, "seed": env.subseed(seed, "c19", fam, ci), "world": "f32",
                          "batch": 6 if tier == "quick" else 10, "cost": 8 if "umnn" in fam else 2})
    # batch-norm in training mode on data that is not centred (variance by cancellation is the classic failure)
    for i in range(6 if tier == "quick" else 150):
        cases.append({"kind": "bn_train", "F": 1 + i % 4, "offset": [0.0, 3.0, 10.0, 30.0][i % 4], "spread": [1.0, 0.1, 0.3][i % 3],
                      "seed": env.subseed(seed, "c19bn", i), "world": "f32", "cost": 1})
    for i in range(20 if tier == "quick" else 2000):
        cases.append({"kind": "flow", "cfg": dzoo.sample_flow_cfg(rng), "seed": env.subseed(seed, "c19f", i), "world": "f32",
                      "cost": 3})
    # data-dependent initialisation of ActNorm on data that is not centred (moments by cancellation fail in float32)
    for i in range(6 if tier == "quick" else 120):
        cases.append({"kind": "actnorm_init", "F": 1 + i % 3, "image": bool(i % 2), "offset": [0.0, 10.0, 100.0, 128.0][i % 4],
                      "spread": [1.0, 0.1, 2.0][i % 3], "seed": env.subseed(seed, "c19an", i), "world": "f32", "cost": 1})
    # library distributions (log_prob of the float32 object next to its .double() twin; narrow mixture components included:
    # densities evaluated through exp() of a large negative number underflow in float32 long before their logarithm does)
    for i in range(16 if tier == "quick" else 600):
        dc = dzoo.sample_dist_cfg(rng, [["mademog", "mademog", "cond_diag", "diag", "bernoulli"][i % 5]])
        if dc["dist"] == "bernoulli":
            shape = dc["shape"]
            dc = {"dist": "bernoulli", "shape": shape, "encoder": False, "ctx": int(np.prod(shape)), "ctx_scale": [4.0, 8.0, 12.0][i % 3]}
        if dc["dist"] == "mademog":
            dc["narrow"] = i % 8 < 4
            dc["bn"] = False
        cases.append({"kind": "dist", "cfg": dc, "seed": env.subseed(seed, "c19d", i), "world": "f32", "cost": 1})
    # wide linear layers (a product of a few hundred diagonal entries leaves the float32 range; its log does not)
    for i, fam in enumerate(["lu", "qr", "svd", "naive", "conv"] * (1 if tier == "quick" else 24)):
        cases.append({"kind": "wide_linear", "family": fam, "features": [256, 192, 300, 512][(i // 5 + i) % 4],
                      "seed": env.subseed(seed, "c19w", i), "world": "f32", "cost": 4})
    # NaiveLinear with a prescribed moderate condition number: float32 error must scale with cond, not cond^2
    for i in range(4 if tier == "quick" else 60):
        cases.append({"kind": "naive_cond", "features": [4, 8, 16, 6][i % 4], "cond": [1e2, 1e3, 3e2, 1e3][i % 4],
                      "cache": bool(i % 2), "seed": env.subseed(seed, "c19nc", i), "world": "f32", "cost": 1})
    # the clamp band of Logit / Sigmoid.inverse: inputs exactly on 0 and 1 and within eps of them are in-domain and are clamped to
    # [eps, 1 - eps] - the declared constant is the same number in both precisions, so both must saturate at the same place
    for i in range(6 if tier == "quick" else 36):
        cases.append({"kind": "clamp_band", "temp": [1.0, 0.5, 3.0][i % 3], "via": ["logit", "sigmoid_inverse"][(i // 3) % 2],
                      "seed": env.subseed(seed, "c19clamp", i), "world": "f32", "cost": 1})
    npts = 2000 if tier == "quick" else 100000
    for fam in ("linear", "quadratic", "cubic", "rq"):
        for ps in (0.3, 1.0, 1.5):
            for K in (2, 5, 10):
                for tails in (False, True):
                    cases.append({"kind": "spline", "family": fam, "pscale": ps, "bins": K, "tails": tails, "npts": npts,
                                  "seed": env.subseed(seed, "c19s", fam, ps, K, tails), "world": "f32", "cost": 2})
    return cases


def twin(model):
    m64 = copy.deepcopy(model).double()
    m64.train(model.training)
    return m64


def dtype_clause(r, label, what, t, want, det):
    r.count("dtype_checks")
    if t.dtype != want:
        r.viol("dtype", "%s %s does not carry the dtype of the inputs" % (label, what), got=str(t.dtype), inputs=str(want), **det)
        return False
    return True


def construction_default_clause(r, label, cfg, m64, x, ctx, det, me):
    """The float64 twin (built while the default dtype was float32, then .double()) against the same configuration BUILT while the
    default dtype is float64 and given the twin's values through load_state_dict: constants that a constructor derives from its
    arguments in the default dtype and keeps outside the state dict (log of a slope, of a temperature ...) carry single precision
    into every double-precision evaluation of the first model."""
    if me is not None and ("umnn" in me["tags"] or m64.training):
        return
    try:
        torch.set_default_dtype(torch.float64)
        mc = zoo.build(cfg)
        mc.load_state_dict(m64.state_dict())
        mc.eval()
        with torch.no_grad():
            oc, lc = mc(x.double(), ctx.double() if ctx is not None else None)
    except Exception:
        r.count("construction_default_twin_raised")
        return
    finally:
        torch.set_default_dtype(torch.float32)
    try:
        with torch.no_grad():
            o64, l64 = m64(x.double(), ctx.double() if ctx is not None else None)
    except Exception:
        return
    if o64.shape != oc.shape:
        return
    ok = torch.isfinite(o64) & torch.isfinite(oc)
    okl = torch.isfinite(l64) & torch.isfinite(lc)
    r.ev()
    r.count("construction_default_checks")
    dd = float((o64 - oc).abs()[ok].max()) if ok.any() else 0.0
    ddl = float((l64 - lc).abs()[okl].max()) if okl.any() else 0.0
    r.worst("construction_default_dependence/1e-9", max(dd, ddl) / 1e-9)
    if max(dd, ddl) > 1e-9 * (1 + (float(oc.abs()[ok].max()) if ok.any() else 0.0) + (float(lc.abs()[okl].max()) if okl.any() else 0.0)):
        r.viol("default_dtype_dependence", "%s.forward: double-precision results depend on the default dtype at construction time (a "
               "constant derived from the arguments is kept in single precision)" % label, out_diff=dd, lad_diff=ddl, **det)


def compare_items(r, label, direction, m32, m64, x, ctx, det, me=None):
    """Returns True if everything agreed."""
    B = x.shape[0]
    f32 = m32.forward if direction == "forward" else m32.inverse
    f64 = m64.forward if direction == "forward" else m64.inverse
    c64 = ctx.double() if ctx is not None else None
    x64 = x.double()
    try:
        with torch.no_grad():
            o64, l64 = f64(x64, c64)
    except Exception as e:
        r.count("twin_call_raised")
        return None
    if not m64.training:
        try:
            torch.set_default_dtype(torch.float64)
            with torch.no_grad():
                o64d, l64d = (m64.forward if direction == "forward" else m64.inverse)(x64, c64)
        except Exception:
            o64d = None
        finally:
            torch.set_default_dtype(torch.float32)
        if o64d is not None and o64d.shape == o64.shape:
            okd = torch.isfinite(o64) & torch.isfinite(o64d)
            r.count("default_dtype_checks")
            if okd.any():
                dd = float((o64 - o64d).abs()[okd].max())
                ddl = float((l64 - l64d).abs()[torch.isfinite(l64) & torch.isfinite(l64d)].max()) if (torch.isfinite(l64) & torch.isfinite(l64d)).any() else 0.0
                if max(dd, ddl) > 1e-9 * (1 + float(o64d.abs()[okd].max()) + float(l64d.abs().max() if torch.isfinite(l64d).all() else 0.0)) \
                        and (me is None or "umnn" not in me["tags"]):
                    r.viol("default_dtype_dependence", "%s.%s: the float64 twin's results depend on the default dtype (a constant is created "
                           "in single precision)" % (label, direction), out_diff=dd, lad_diff=ddl, **det)
    try:
        with torch.no_grad():
            o32, l32 = f32(x, ctx)
    except Exception as e:
        r.ev()
        r.viol("raises_in_float32", "%s.%s raises in float32 where its float64 twin works" % (label, direction),
               exc=repr(e)[:200], exc_type=type(e).__name__, **det)
        return False
    ok = dtype_clause(r, label, direction + " outputs (float32 inputs)", o32, torch.float32, det)
    ok &= dtype_clause(r, label, direction + " logabsdet (float32 inputs)", l32, torch.float32, det)
    ok &= dtype_clause(r, label, direction + " outputs (float64 inputs)", o64, torch.float64, det)
    ok &= dtype_clause(r, label, direction + " logabsdet (float64 inputs)", l64, torch.float64, det)
    if not (torch.isfinite(o64).all() and torch.isfinite(l64).all()):
        r.count("twin_nonfinite")
        return None
    if not (torch.isfinite(o32).all() and torch.isfinite(l32).all()):
        # saturated items are not judged (the float32 convention of C09: a derivative below ~1/sqrt-ish of the float32 range,
        # exp(-11) = 1.7e-5, is computed from O(1) terms by cancellation and may come out <= 0 - e.g. a cubic whose end slope is
        # sigmoid(-15) x 3 x chord: true log-derivative -11.6, float32 NaN): the twin's item Jacobian tells
        bad_rows = (~torch.isfinite(o32)).reshape(B, -1).any(1) | ~torch.isfinite(l32)
        unexcused = []
        for i_ in bad_rows.nonzero().reshape(-1).tolist():
            try:
                ci_ = c64[i_:i_ + 1] if c64 is not None else None
                J_ = torch.autograd.functional.jacobian(lambda z_: f64(z_.reshape(x64[i_:i_ + 1].shape), ci_)[0].reshape(-1), x64[i_].reshape(-1))
                smin = float(torch.linalg.svdvals(J_.reshape(J_.shape[0], -1)).min())
            except Exception:
                smin = 1.0
            if smin < 1.7e-5:
                r.count("saturated_items_not_judged")
            else:
                unexcused.append(i_)
        if not unexcused:
            return None
        r.ev()
        r.viol("nonfinite_in_float32", "%s.%s returns non-finite numbers in float32 (finite in float64)" % (label, direction),
               rows=unexcused[:4], **det)
        return False
    differs = False
    for i in range(B):
        r.ev()
        r.count("twin_items")
        oe = (o32[i].double() - o64[i]).abs()
        le = abs(float(l32[i]) - float(l64[i]))
        nx = float(x64[i].abs().max())
        D = x[i].numel()
        simple_o = 64 * E32 * (1 + o64[i].abs())
        simple_l = 64 * E32 * (D + abs(float(l64[i])))          # per-element roundings add up
        if float(oe.max()) > 0 or le > 0:
            differs = True
        if bool((oe <= simple_o).all()) and le <= simple_l:
            continue
        # conditioning from the float64 twin (on a copy when in training mode: extra calls would move running statistics)
        if m64.training:
            f64 = (copy.deepcopy(m64).forward if direction == "forward" else copy.deepcopy(m64).inverse)
        ci = c64[i:i + 1] if c64 is not None else None
        try:
            J = torch.autograd.functional.jacobian(lambda z: f64(z[None], ci)[0][0].reshape(-1), x64[i])
            J = J.reshape(o64[i].numel(), -1)
            sv = torch.linalg.svdvals(J)
            cond = float(sv.max() / sv.min()) if float(sv.min()) > 0 else float("inf")
            rown = J.abs().sum(1).reshape(o64[i].shape)
        except Exception:
            r.count("jacobian_failed")
            continue
        if not cond < 1e6:
            r.count("skipped_illconditioned_items")
            continue
        # composites: the parts' log-dets may cancel (sigmoid ... logit); rounding scales with the sum of their magnitudes
        parts_abs = 0.0
        squash_amp = 0.0
        squash_max = 0.0
        if getattr(m64, "_transforms", None) is not None:
            try:
                with torch.no_grad():
                    h = x64[i:i + 1]
                    plist = list((copy.deepcopy(m64) if m64.training else m64)._transforms)
                    for part in (plist if direction == "forward" else plist[::-1]):
                        h, lp = (part(h, ci) if direction == "forward" else part.inverse(h, ci))
                        parts_abs += float(lp.abs().sum()) + float(h.abs().max())
                        if float(h.min()) > 0.0 and float(h.max()) < 1.0 and float(torch.minimum(h, 1 - h).min()) < 0.05:
                            # an intermediate squashed into (0,1): float32 resolves 1-u only to eps32 u/(1-u), and the
                            # neighbouring Logit / Sigmoid log-det terms -log(u(1-u)) inherit exactly that relative error
                            amp = (1.0 / torch.minimum(h, 1 - h)).clamp(max=1e9)
                            squash_amp += float(amp.sum())
                            squash_max = max(squash_max, float(amp.max()))
            except Exception:
                parts_abs = 0.0
        allowed_o = simple_o + 16 * E32 * rown * (1 + nx)
        if squash_max > 0:
            # a squashed intermediate u carries an absolute error eps32 u; the Logit that follows turns it into
            # eps32 / min(u, 1-u) (the temperature-aware form of the exp(|y|) allowance below)
            allowed_o = allowed_o + 32 * E32 * squash_max * torch.clamp(rown, min=1.0)
        if me is not None and "sigmoid_eps" in me["tags"]:
            # values squashed into (0,1) and expanded again: float32 resolves 1-u only to eps32/(1-u) ~ eps32*exp(|y|)
            allowed_o = allowed_o + 8 * E32 * torch.exp(torch.clamp(torch.maximum(o64[i].abs(), x64[i].abs().max()), max=30.0))
        # sensitivity of the log-det to input rounding (finite differences on the twin, three directions / scales)
        sens = 0.0
        gg = torch.Generator().manual_seed(i + 5)
        for dl in (1e-3, 1e-5, 1e-6, 2e-7):
            u = torch.sign(torch.randn(x64[i].shape, generator=gg, dtype=torch.float64))
            xa, xb = x64[i] + dl * (1 + nx) * u, x64[i] - dl * (1 + nx) * u
            if me is not None:
                dom = me["dom_in"] if direction == "forward" else me["dom_out"]
                if dom[0] == "box":
                    xa, xb = xa.clamp(dom[1], dom[2]), xb.clamp(dom[1], dom[2])
            try:
                with torch.no_grad():
                    la, lb = float(f64(xa[None], ci)[1]), float(f64(xb[None], ci)[1])
                den = float((xa - xb).abs().max())
                if den > 0 and np.isfinite(la) and np.isfinite(lb):
                    sens = max(sens, abs(la - lb) / den)
            except Exception:
                pass
        allowed_l = simple_l + 64 * E32 * parts_abs + 32 * E32 * squash_amp + 1024 * E32 * sens * (1 + nx) + \
            (8 * E32 * float(np.exp(min(abs(float(l64[i])), 30.0))) if me is not None and "spline_linear" in me["tags"] else 0.0)
        r.worst("out_err/allowed", float((oe / allowed_o).max()))
        r.worst("lad_err/allowed", le / allowed_l)
        if bool((oe > allowed_o).any()):
            k = int((oe / allowed_o).reshape(-1).argmax())
            r.viol("outputs_disagree", "%s.%s float32 outputs disagree with the float64 twin beyond conditioning" % (label, direction),
                   item=i, element=k, f32=float(o32[i].reshape(-1)[k]), f64=float(o64[i].reshape(-1)[k]),
                   allowed=float(allowed_o.reshape(-1)[k]), cond=cond, x=x[i].reshape(-1)[:6], **det)
            return False
        if le > allowed_l:
            r.viol("logabsdet_disagrees", "%s.%s float32 logabsdet disagrees with the float64 twin beyond conditioning" % (label, direction),
                   item=i, f32=float(l32[i]), f64=float(l64[i]), allowed=allowed_l, sensitivity=sens, cond=cond,
                   x=x[i].reshape(-1)[:6], **det)
            return False
    return "differs" if differs else True


def run_case(case):
    r = R(case)
    kind = case["kind"]
    if kind == "clamp_band":
        from nflows import transforms as T
        tr32 = T.Logit(temperature=case["temp"]) if case["via"] == "logit" else T.InverseTransform(T.Sigmoid(temperature=case["temp"]))
        tr64 = copy.deepcopy(tr32).double()
        pts = [0.0, 1.0, 1e-7, 1 - 1e-7, 3e-7, 1 - 3e-7, 1e-6, 1 - 1e-6, 1e-5, 1 - 1e-5, 0.5]
        x64 = torch.tensor(pts, dtype=torch.float64).reshape(-1, 1)
        x32 = x64.float()
        label = "%s(temperature=%g)" % (case["via"], case["temp"])
        try:
            with torch.no_grad():
                o64, l64 = tr64(x32.double())
        except Exception:
            r.count("twin_call_raised")
            return r.done()
        try:
            with torch.no_grad():
                o32, l32 = tr32(x32)
        except Exception as e:
            r.ev()
            r.viol("raises_in_float32", "%s.forward raises in float32 where its float64 twin works" % label, exc=repr(e)[:200])
            return r.done()
        r.ev(len(pts))
        r.count("twin_items", len(pts))
        r.count("clamp_band_points", len(pts))
        if not (torch.isfinite(o32).all() and torch.isfinite(l32).all()):
            r.viol("nonfinite_in_float32", "%s.forward non-finite in float32 (finite in float64)" % label, out32=o32.reshape(-1).tolist())
            return r.done()
        # (1 - 1e-6 is 1 - 1.013e-6 in single precision: the two clamp points differ by 1.3 % of eps, 1e-3 of the saturated value)
        eo = float(((o32.double() - o64).abs() / (1 + o64.abs())).max())
        el = float(((l32.double() - l64).abs() / (1 + l64.abs())).max())
        r.worst("clamp_band_rel_err/5e-3", max(eo, el) / 5e-3)
        if max(eo, el) > 5e-3:
            k = int(((o32.double() - o64).abs() / (1 + o64.abs())).reshape(-1).argmax())
            r.viol("outputs_disagree", "%s.forward float32 outputs disagree with the float64 twin beyond conditioning" % label,
                   x=pts[k], out32=float(o32.reshape(-1)[k]), out64=float(o64.reshape(-1)[k]), rel_err=max(eo, el), where="clamp band")
        else:
            r.cell("clamp_band", case["via"], case["temp"])
        r.sample({"clamp_band": label, "rel_err": max(eo, el)})
        return r.done()
    if kind == "spline":
        return run_spline(r, case)
    seed = case["seed"]
    if kind == "bn_train":
        from nflows import transforms as T
        torch.manual_seed(seed)
        F = case["F"]
        m = T.BatchNorm(F)
        with torch.no_grad():
            m.unconstrained_weight.copy_(torch.randn(F) * 0.5)
            m.bias.copy_(torch.randn(F) * 0.5)
        m.train()
        m64 = twin(m)
        g = torch.Generator().manual_seed(seed)
        det = dict(offset=case["offset"], spread=case["spread"], features=F, mode="train")
        for step in range(3):
            x = (case["offset"] + case["spread"] * torch.randn(8, F, generator=g)).float()
            st = compare_items(r, "batchnorm(train)", "forward", m, m64, x, None, det)
            if st is False:
                break
            if st == "differs":
                r.cell("batchnorm_train", case["offset"], case["spread"], step)
        # the running statistics accumulated in float32 must agree with the twin's
        for k in ("running_mean", "running_var"):
            a, b = getattr(m, k).double(), getattr(m64, k)
            r.ev()
            # centred (two-pass / Welford) statistics in float32: relative error ~ eps32 * |mean| / std
            tol = 16 * E32 * (1 + b.abs()) * (1 + case["offset"] / case["spread"])
            r.worst("bn_stat_err/tol", float(((a - b).abs() / tol).max()))
            if bool(((a - b).abs() > tol).any()):
                r.viol("statistics_disagree", "batchnorm float32 %s disagrees with the float64 twin" % k, f32=a.tolist(),
                       f64=b.tolist(), **det)
        m.eval(); m64.eval()
        x = (case["offset"] + case["spread"] * torch.randn(6, F, generator=g)).float()
        compare_items(r, "batchnorm(eval after train)", "forward", m, m64, x, None, det)
        r.sample({"bn_train": det})
        return r.done()
    if kind == "wide_linear":
        return run_wide(r, case)
    if kind == "dist":
        return run_dist(r, case)
    if kind == "naive_cond":
        return run_naive_cond(r, case)
    if kind == "actnorm_init":
        return run_actnorm_init(r, case)
    try:
        if kind == "zoo":
            cfg = case["cfg"]
            me = zoo.meta(cfg)
            model = zoo.make(cfg, case["policy"], seed)
            label = cfg["fam"]
        else:
            cfg = case["cfg"]
            model = dzoo.build_flow(cfg, seed, policy="randn0.3")
            dzoo.warm_flow(model, cfg, seed)
            label = "flow_" + cfg["flow"]
            me = None
    except Exception as e:
        r.inconc("construction failed %r" % (e,))
        return r.done()
    try:
        m64 = twin(model)
    except Exception as e:
        r.ev()
        r.viol("double_raises", "%s cannot be converted with .double()" % label, exc=repr(e)[:200], cfg=cfg)
        return r.done()
    det = dict(cfg=cfg, policy=case.get("policy"))
    if kind == "flow":
        x, ctx = dzoo.flow_inputs(cfg, 6, seed + 1)
        x = (x * 0.8).float()
        ctx = ctx.float() if ctx is not None else None
        try:
            with torch.no_grad():
                lp64 = m64.log_prob(x.double(), ctx.double() if ctx is not None else None)
                lp32 = model.log_prob(x, ctx)
            r.ev()
            r.count("twin_items", x.shape[0])
            dtype_clause(r, label, "log_prob (float32 inputs)", lp32, torch.float32, det)
            dtype_clause(r, label, "log_prob (float64 inputs)", lp64, torch.float64, det)
            if torch.isfinite(lp64).all() and not torch.isfinite(lp32).all():
                r.viol("nonfinite_in_float32", "%s.log_prob is not finite in float32" % label, **det)
            err = float((lp32.double() - lp64).abs().max())
            r.worst("flow_logprob_abs_err", err)
            if err > 0:
                r.cell(label, "log_prob")
            if err > 2e-2 * (1 + float(lp64.abs().max())):
                r.viol("logprob_disagrees", "%s.log_prob float32 disagrees grossly with the float64 twin" % label, err=err, **det)
        except Exception as e:
            r.count("flow_call_raised")
        r.sample({"flow": cfg["flow"]})
        return r.done()
    B = case["batch"]
    m2 = dict(me)
    if me["dom_in"][0] == "R":
        m2["dom_in"] = ("Rb", 6.0)
    elif me["dom_in"][0] == "Rb":
        # bounded-R families (Sigmoid: 12 / temperature) keep their own bound: saturation near it is where single
        # precision loses 1 - u, and where formulas that go through the saturated output fail
        m2["dom_in"] = ("Rb", min(24.0, me["dom_in"][1]))
    m2["special"] = [s for s in me["special"] if abs(s) <= 12.0]
    # kinks (spline knots of piecewise-linear maps, tail junctions, cut points): float32 and float64 may legitimately
    # fall on different sides -> exact structured points only for the smooth families
    x = zoo.sample_inputs(m2, B, seed + 1, structured=False if "kink" in me["tags"] else "many").float()
    if me["dom_in"][0] == "Rb" and "sigmoid_eps" in me["tags"] and B >= 2:
        bnd = min(24.0, me["dom_in"][1])
        x[0].reshape(-1)[0] = 0.97 * bnd
        x[1].reshape(-1)[-1] = -0.97 * bnd
    ctx = zoo.sample_context(me, B, seed + 2)
    ctx = ctx.float() if ctx is not None else None
    st = compare_items(r, label, "forward", model, m64, x, ctx, det, me)
    if st == "differs":
        r.cell(label, "forward", case["policy"], "img" if len(me["shape"]) == 3 else "2d")
    construction_default_clause(r, label, cfg, m64, x, ctx, det, me)
    if st is not False:
        try:
            with torch.no_grad():
                y = m64(x.double(), ctx.double() if ctx is not None else None)[0].float()
            if me["dom_out"][0] == "box":
                y = y.clamp(me["dom_out"][1], me["dom_out"][2])
            if me["dom_out"][0] == "open":
                w_ = me["dom_out"][2] - me["dom_out"][1]
                y = y.clamp(me["dom_out"][1] + 1e-5 * w_, me["dom_out"][2] - 1e-5 * w_)
            if torch.isfinite(y).all() and "umnn" not in me["tags"]:
                st2 = compare_items(r, label, "inverse", model, m64, y, ctx, det, me)
                if st2 == "differs":
                    r.cell(label, "inverse", case["policy"], "img" if len(me["shape"]) == 3 else "2d")
        except Exception:
            r.count("inverse_setup_raised")
    # conversion AFTER use: a model that has been evaluated in float32 and is then converted with .double() must behave
    # like the twin that was converted before its first call (anything memoised in the dtype of the first call shows here)
    try:
        late = copy.deepcopy(model).double()
        late.train(model.training)
        c64 = ctx.double() if ctx is not None else None
        with torch.no_grad():
            oR, lR = m64(x.double(), c64)
            try:
                oL, lL = late(x.double(), c64)
            except Exception as e_late:
                # the twin converted before its first call works, the one converted after a float32 call does not
                r.ev()
                r.viol("late_conversion", "%s converted with .double() after a float32 call raises where the twin converted before "
                       "its first call works" % label, exc=repr(e_late)[:200], **det)
                raise
        r.ev()
        r.count("late_conversion_checks")
        dtype_clause(r, label, "forward outputs after .double() of a used model", oL, torch.float64, det)
        dtype_clause(r, label, "forward logabsdet after .double() of a used model", lL, torch.float64, det)
        if torch.isfinite(oR).all() and torch.isfinite(lR).all():
            eo = float((oL.double() - oR).abs().max() / (1 + oR.abs().max()))
            el = float((lL.double() - lR).abs().max() / (1 + lR.abs().max()))
            r.worst("late_conversion_err/1e-10", max(eo, el) / 1e-10)
            if max(eo, el) > 1e-10 and "umnn" not in me["tags"]:
                r.viol("late_conversion", "%s converted with .double() after a float32 call keeps single-precision state" % label,
                       out_err=eo, lad_err=el, **det)
        back = copy.deepcopy(late).float()
        back.train(model.training)
        with torch.no_grad():
            oB, lB = back(x, ctx)
        dtype_clause(r, label, "forward outputs after .float() of a used float64 model", oB, torch.float32, det)
        dtype_clause(r, label, "forward logabsdet after .float() of a used float64 model", lB, torch.float32, det)
    except Exception as e:
        r.count("late_conversion_raised")
    r.sample({"family": label, "policy": case["policy"], "x0": x[0].reshape(-1)[:5]})
    return r.done()


def run_actnorm_init(r, case):
    from nflows import transforms as T
    F_, seed = case["F"], case["seed"]
    g = torch.Generator().manual_seed(seed)
    shape = [F_, 3, 2] if case["image"] else [F_]
    x = (case["offset"] + case["spread"] * torch.randn([40] + shape, generator=g)).float()
    m = T.ActNorm(F_)
    m64 = twin(m)
    m.train(); m64.train()
    det = dict(features=F_, image=case["image"], offset=case["offset"], spread=case["spread"])
    try:
        with torch.no_grad():
            o32, l32 = m(x)
            o64, l64 = m64(x.double())
    except Exception as e:
        r.inconc("actnorm initialising call failed %r" % (e,))
        return r.done()
    r.ev(x.shape[0])
    r.count("twin_items", x.shape[0])
    r.count("actnorm_init_items", x.shape[0])
    ratio = 1 + case["offset"] / case["spread"]
    le = float((l32.double() - l64).abs().max())
    oe = float((o32.double() - o64).abs().max())
    # centred two-pass moments in float32: relative error of the scale ~ eps32 * (1 + |mean| / std) (as for BatchNorm above)
    allowed_l = 64 * E32 * F_ * (6 if case["image"] else 1) * ratio + 64 * E32 * (1 + float(l64.abs().max()))
    allowed_o = 64 * E32 * ratio * (1 + float(o64.abs().max()))
    r.worst("actnorm_init_lad_err/allowed", le / allowed_l)
    r.worst("actnorm_init_out_err/allowed", oe / allowed_o)
    if le > allowed_l or oe > allowed_o or not (torch.isfinite(o32).all() and torch.isfinite(l32).all()):
        r.viol("statistics_disagree", "ActNorm's data-dependent initialisation in float32 disagrees with the float64 twin", lad_err=le,
               out_err=oe, allowed_lad=allowed_l, allowed_out=allowed_o, **det)
    else:
        r.cell("actnorm_init", case["offset"], case["spread"], case["image"])
    r.sample({"actnorm_init": det})
    return r.done()


def run_naive_cond(r, case):
    from nflows import transforms as T
    D, cond, seed = case["features"], case["cond"], case["seed"]
    g = torch.Generator().manual_seed(seed)
    torch.manual_seed(seed)
    m = T.NaiveLinear(D, using_cache=case["cache"])
    with torch.no_grad():
        q1, _ = torch.linalg.qr(torch.randn(D, D, generator=g))
        q2, _ = torch.linalg.qr(torch.randn(D, D, generator=g))
        sv = torch.logspace(0, -float(np.log10(cond)), D)
        m._weight.copy_(q1 @ torch.diag(sv) @ q2.t())
        m.bias.copy_(torch.randn(D, generator=g))
    m.eval()
    m64 = twin(m)
    x = torch.randn(6, D, generator=g)
    det = dict(features=D, cond=cond, cache=case["cache"])
    label = "naive_linear(cond=%g)" % cond
    for direction in ("forward", "inverse"):
        try:
            with torch.no_grad():
                o64, l64 = (m64.forward if direction == "forward" else m64.inverse)(x.double())
                o32, l32 = (m.forward if direction == "forward" else m.inverse)(x)
        except Exception as e:
            r.ev()
            r.viol("raises_in_float32", "%s.%s raises in float32" % (label, direction), exc=repr(e)[:200], **det)
            continue
        r.ev(x.shape[0])
        r.count("twin_items", x.shape[0])
        r.count("conditioned_linear_items", x.shape[0])
        if not (torch.isfinite(o32).all() and torch.isfinite(l32).all()):
            r.viol("nonfinite_in_float32", "%s.%s returns non-finite numbers in float32" % (label, direction), **det)
            continue
        amp = cond if direction == "inverse" else 1.0
        oe = float((o32.double() - o64).abs().max())
        allowed_o = 64 * E32 * D * amp * (1 + float(x.abs().max()) + float(m.bias.abs().max()))
        le = float((l32.double() - l64).abs().max())
        allowed_l = 64 * E32 * D * (1 + float(l64.abs().max()) + np.log(cond))
        r.worst("cond_out_err/allowed", oe / allowed_o)
        r.worst("cond_lad_err/allowed", le / allowed_l)
        if oe > allowed_o:
            r.viol("outputs_disagree", "%s.%s float32 outputs disagree with the float64 twin beyond eps * cond" % (label, direction),
                   err=oe, allowed=allowed_o, **det)
        if le > allowed_l:
            r.viol("logabsdet_disagrees", "%s.%s float32 logabsdet disagrees with the float64 twin" % (label, direction),
                   err=le, allowed=allowed_l, **det)
        if oe > 0:
            r.cell(label, direction, D)
    r.sample({"naive_cond": det})
    return r.done()


def run_dist(r, case):
    cfg, seed = case["cfg"], case["seed"]
    try:
        d = dzoo.build_dist(cfg, seed)
        d.eval()
        d64 = twin(d)
    except Exception as e:
        r.inconc("construction failed %r" % (e,))
        return r.done()
    label = "dist_" + cfg["dist"]
    det = dict(cfg=cfg)
    x, c = dzoo.dist_inputs(cfg, 24, seed + 1)
    x = (x * torch.linspace(0.3, 2.7, x.shape[0]).reshape([-1] + [1] * (x.dim() - 1))).float()     # up to ~4 sigma of N(0, 1.5)
    c = (c * cfg.get("ctx_scale", 1.0)).float() if c is not None else None
    if cfg["dist"] == "bernoulli":
        x = (x > 0).float()
    if c is None and dzoo.dist_meta(cfg)["needs_ctx"]:
        return r.done()
    try:
        with torch.no_grad():
            lp64 = d64.log_prob(x.double(), c.double() if c is not None else None)
            lp32 = d.log_prob(x, c)
    except Exception as e:
        r.count("dist_call_raised")
        return r.done()
    r.ev(x.shape[0])
    r.count("twin_items", x.shape[0])
    r.count("dist_twin_items", x.shape[0])
    dtype_clause(r, label, "log_prob (float32 inputs)", lp32, torch.float32, det)
    dtype_clause(r, label, "log_prob (float64 inputs)", lp64, torch.float64, det)
    ok64 = torch.isfinite(lp64)
    if (ok64 & ~torch.isfinite(lp32)).any():
        k = int((ok64 & ~torch.isfinite(lp32)).nonzero()[0])
        r.viol("nonfinite_in_float32", "%s.log_prob is not finite in float32 (finite in float64)" % label, f32=float(lp32[k]),
               f64=float(lp64[k]), x=x[k].reshape(-1)[:4], **det)
        return r.done()
    if ok64.any():
        err = (lp32.double() - lp64).abs()[ok64]
        allowed = 1e-3 * (1 + lp64.abs()[ok64])
        r.worst("dist_logprob_err/allowed", float((err / allowed).max()))
        if bool((err > allowed).any()):
            k = int((err / allowed).argmax())
            r.viol("logprob_disagrees", "%s.log_prob float32 disagrees with the float64 twin" % label, err=float(err[k]),
                   f64=float(lp64[ok64][k]), **det)
        elif float(err.max()) > 0:
            r.cell(label, "log_prob", bool(cfg.get("narrow")))
    r.sample({"dist": cfg["dist"], "narrow": cfg.get("narrow")})
    return r.done()


def run_wide(r, case):
    from nflows import transforms as T
    fam, D, seed = case["family"], case["features"], case["seed"]
    g = torch.Generator().manual_seed(seed)
    torch.manual_seed(seed)

    def un(n, lo=-2.0, hi=1.0):
        return lo + (hi - lo) * torch.rand(n, generator=g)
    if fam == "lu":
        m = T.LULinear(D, identity_init=True)
        with torch.no_grad():
            m.unconstrained_upper_diag.copy_(un(D))
            m.lower_entries.copy_(0.02 * torch.randn(m.lower_entries.shape, generator=g))
            m.upper_entries.copy_(0.02 * torch.randn(m.upper_entries.shape, generator=g))
    elif fam == "qr":
        m = T.QRLinear(D, num_householder=4)
        with torch.no_grad():
            m.log_upper_diag.copy_(un(D, -1.0, 0.3))
            m.upper_entries.copy_(0.02 * torch.randn(m.upper_entries.shape, generator=g))
    elif fam == "svd":
        m = T.SVDLinear(D, num_householder=4)
        with torch.no_grad():
            m.unconstrained_diagonal.copy_(un(D))
    elif fam == "naive":
        m = T.NaiveLinear(D)
        with torch.no_grad():
            m._weight.mul_(torch.exp(un(D, -1.0, 0.3))[:, None])
    else:
        m = T.OneByOneConvolution(D, identity_init=True)
        with torch.no_grad():
            m.unconstrained_upper_diag.copy_(un(D))
            m.lower_entries.copy_(0.02 * torch.randn(m.lower_entries.shape, generator=g))
            m.upper_entries.copy_(0.02 * torch.randn(m.upper_entries.shape, generator=g))
    with torch.no_grad():
        m.bias.copy_(torch.randn(D, generator=g))
    m.eval()
    m64 = twin(m)
    x = torch.randn(4, D, generator=g) if fam != "conv" else torch.randn(3, D, 2, 1, generator=g)
    det = dict(family=fam, features=D)
    label = "wide_" + fam
    for direction in ("forward", "inverse"):
        try:
            with torch.no_grad():
                o64, l64 = (m64.forward if direction == "forward" else m64.inverse)(x.double())
                o32, l32 = (m.forward if direction == "forward" else m.inverse)(x)
        except Exception as e:
            r.ev()
            r.viol("raises_in_float32", "%s.%s raises" % (label, direction), exc=repr(e)[:200], **det)
            continue
        r.ev(x.shape[0])
        r.count("twin_items", x.shape[0])
        r.count("wide_linear_items", x.shape[0])
        dtype_clause(r, label, direction + " outputs (float32 inputs)", o32, torch.float32, det)
        dtype_clause(r, label, direction + " logabsdet (float32 inputs)", l32, torch.float32, det)
        if not (torch.isfinite(o64).all() and torch.isfinite(l64).all()):
            r.count("twin_nonfinite")
            continue
        if not (torch.isfinite(o32).all() and torch.isfinite(l32).all()):
            r.viol("nonfinite_in_float32", "%s.%s returns non-finite numbers in float32 (finite in float64)" % (label, direction),
                   logabsdet_f32=l32.tolist()[:3], logabsdet_f64=l64.tolist()[:3], **det)
            continue
        n_pix = 2 if fam == "conv" else 1
        le = float((l32.double() - l64).abs().max())
        allowed_l = 64 * E32 * n_pix * (D + float(l64.abs().max()))
        oe = float((o32.double() - o64).abs().max())
        allowed_o = 256 * E32 * D ** 0.5 * (1 + float(o64.abs().max())) * (30.0 if direction == "inverse" else 1.0)
        r.worst("wide_lad_err/allowed", le / allowed_l)
        r.worst("wide_out_err/allowed", oe / allowed_o)
        if le > allowed_l:
            r.viol("logabsdet_disagrees", "%s.%s float32 logabsdet disagrees with the float64 twin" % (label, direction),
                   err=le, allowed=allowed_l, f64=float(l64[0]), **det)
        if oe > allowed_o:
            r.viol("outputs_disagree", "%s.%s float32 outputs disagree with the float64 twin" % (label, direction),
                   err=oe, allowed=allowed_o, **det)
        if le > 0 or oe > 0:
            r.cell(label, direction, D)
    r.sample({"wide_linear": det})
    return r.done()


def run_spline(r, case):
    fam, ps, K, tails = case["family"], case["pscale"], case["bins"], case["tails"]
    g = torch.Generator().manual_seed(case["seed"])
    K = max(K, splineref.min_bins(fam, tails))
    n = case["npts"]
    p32 = {k: v.float() for k, v in splineref.random_params(fam, n, K, ps, g, tails=tails).items()}
    p64 = {k: v.double() for k, v in p32.items()}
    fn = splineref.fn(fam, tails)
    B = 3.0
    if tails and fam == "rq":
        # tail bounds that are not single-precision numbers (1.2, 0.3, 0.6, 1.1 round outward, 0.7 inward): an input sitting on
        # float32(B) is inside for float32 and in the tail for float64 - the rational-quadratic spline is C1 there (slope one on
        # both sides), so both evaluations must exist and agree (the other families have a derivative jump at their junction)
        B = [3.0, 1.2, 0.3, 1.1, 0.6, 0.7][case["seed"] % 6]
        r.count("nonrepresentable_tail_bound_cases", int(B != 3.0))
    kw = {"tail_bound": B, "tails": "linear"} if tails else {}
    lo, hi = (-B, B) if tails else (0.0, 1.0)
    x = (lo + (hi - lo) * torch.rand(n, generator=g)).float()
    # a share of the points on / next to knots and end-points
    kn = splineref.knots(fam, p64, lo, hi, lo, hi, tails=tails)["x"]
    j = torch.randint(0, kn.shape[1], (n,), generator=g)
    kx = kn.gather(1, j[:, None])[:, 0].float()
    pick = torch.rand(n, generator=g) < 0.2
    x = torch.where(pick, kx, x).clamp(lo, hi)
    det = dict(family=fam, pscale=ps, bins=K, tails=tails)
    for direction in ("forward", "inverse"):
        inv = direction == "inverse"
        try:
            with torch.no_grad():
                if inv:
                    xin64 = fn(inputs=x.double(), inverse=False, **p64, **kw)[0].clamp(lo, hi)
                    xin32 = xin64.float().clamp(lo, hi)
                    xin64 = xin32.double()
                else:
                    xin32, xin64 = x, x.double()
                o64, l64 = fn(inputs=xin64, inverse=inv, **p64, **kw)
        except Exception as e:
            r.count("twin_call_raised")
            continue
        try:
            with torch.no_grad():
                o32, l32 = fn(inputs=xin32, inverse=inv, **p32, **kw)
        except Exception as e:
            r.ev()
            r.viol("raises_in_float32", "spline %s %s raises in float32 where float64 works" % (fam, direction), exc=repr(e)[:200],
                   exc_type=type(e).__name__, **det)
            continue
        # float64 tensors evaluated while the DEFAULT dtype is float32 (this world) must give what they give when the default
        # dtype is float64: constants created without a dtype (linspace, eye, zeros) silently carry single precision otherwise
        try:
            torch.set_default_dtype(torch.float64)
            with torch.no_grad():
                o64d, l64d = fn(inputs=xin64, inverse=inv, **p64, **kw)
        finally:
            torch.set_default_dtype(torch.float32)
        okd = torch.isfinite(o64) & torch.isfinite(o64d) & torch.isfinite(l64) & torch.isfinite(l64d)
        r.count("default_dtype_checks")
        if okd.any():
            dd = max(float((o64 - o64d).abs()[okd].max()), float((l64 - l64d).abs()[okd].max()))
            r.worst("default_dtype_dependence/1e-10", dd / 1e-10)
            if dd > 1e-10 * (1 + float(o64d.abs()[okd].max())):
                r.viol("default_dtype_dependence", "spline %s %s: float64 results depend on the default dtype (a constant is created in "
                       "single precision)" % (fam, direction), max_diff=dd, **det)
        r.ev(n)
        r.count("spline_points", n)
        r.count("twin_items", n)
        dtype_clause(r, "spline " + fam, direction + " outputs", o32, torch.float32, det)
        dtype_clause(r, "spline " + fam, direction + " logabsdet", l32, torch.float32, det)
        fin64 = torch.isfinite(o64) & torch.isfinite(l64)
        bad = fin64 & ~(torch.isfinite(o32) & torch.isfinite(l32))
        if bad.any():
            k = int(bad.nonzero()[0])
            r.viol("nonfinite_in_float32", "spline %s %s non-finite in float32 (finite in float64)" % (fam, direction),
                   x=float(xin32[k]), out32=float(o32[k]), lad32=float(l32[k]), lad64=float(l64[k]), n_bad=int(bad.sum()), **det)
            continue
        slope = torch.exp(l64.clamp(-30, 30))
        # parameters are rounded to float32 as well: knots move by ~eps*K, so allow the slope-amplified shift
        oe = (o32.double() - o64).abs()
        allowed_o = 256 * E32 * (hi - lo) * (1 + slope)
        # log-derivative: sensitivity to the input from float64 finite differences
        sens = torch.zeros_like(l64)
        with torch.no_grad():
            for dl in (1e-4, 1e-6, 2e-7):       # narrow bins (min width 1e-3) make the log-derivative vary on a 1e-6 scale
                dl = dl * (hi - lo)
                xa = (xin64 + dl).clamp(lo, hi) if not tails else xin64 + dl
                xb = (xin64 - dl).clamp(lo, hi) if not tails else xin64 - dl
                la = fn(inputs=xa, inverse=inv, **p64, **kw)[1]
                lb = fn(inputs=xb, inverse=inv, **p64, **kw)[1]
                sens = torch.maximum(sens, ((la - lb).abs() / (xa - xb).abs().clamp_min(1e-300)).nan_to_num(0.0, posinf=0.0))
        le = (l32.double() - l64).abs()
        # (knots are themselves computed in float32: position noise ~K*eps32 times the sensitivity; slopes that come from
        #  differenced cumulative sums carry eps32/slope)
        # (inverse direction: closed-form roots lose up to half the digits where their discriminant vanishes -> sqrt(eps32))
        #  (4096: in 1.2e6 points per parameter scale the tail of the float32 error of the rational-quadratic inverse reaches
        #   1.4x the former 1024 bound; old and regrouped coefficient formulas have identical error distributions)
        # (the eps32 / slope term belongs to slopes obtained by differencing cumulative sums: every direction of the
        #  quadratic / cubic / rq splines and the INVERSE of the linear one; the forward linear spline reads its density from
        #  the softmax itself and is accurate to eps32)
        diffed = not (fam == "linear" and not inv)
        allowed_l = 256 * E32 * (1 + l64.abs()) + (4096 if inv else 256) * E32 * sens * (hi - lo) + \
            (4 * K * E32 * torch.exp(l64.abs().clamp(max=30.0)) if diffed else 0.0)
        ok = fin64
        r.worst("spline_out_err/allowed", float((oe / allowed_o)[ok].max()))
        # knots of the piecewise-LINEAR spline: either adjacent slope is right, rounding decides -> compare away from knots
        if fam == "linear" or tails:
            if inv:
                with torch.no_grad():
                    bfn = splineref.fn(fam, False)
                    pe = {k: v[:, None, :].expand(n, kn.shape[1], v.shape[-1]) for k, v in p64.items()}
                    if tails and fam == "rq":
                        # the tails variant pads the derivatives with the boundary constant
                        from torch.nn import functional as F_
                        cst = float(np.log(np.exp(1 - 1e-3) - 1))
                        pe["unnormalized_derivatives"] = F_.pad(pe["unnormalized_derivatives"], (1, 1), value=cst)
                    try:
                        kref = bfn(inputs=kn.clamp(lo, hi), inverse=False, left=lo, right=hi, bottom=lo, top=hi, **pe)[0]
                    except Exception:
                        kref = kn
            else:
                kref = kn
            d = (xin64[:, None] - kref).abs().min(1).values
            ok = ok & (d > 1e-4 * (hi - lo))
        if (ok & (oe > allowed_o)).any():
            k = int(((oe / allowed_o) * ok).argmax())
            r.viol("outputs_disagree", "spline %s %s float32 output disagrees with float64 beyond conditioning" % (fam, direction),
                   x=float(xin32[k]), f32=float(o32[k]), f64=float(o64[k]), allowed=float(allowed_o[k]), slope=float(slope[k]), **det)
        r.worst("spline_lad_err/allowed", float((le / allowed_l)[ok].max()) if ok.any() else 0.0)
        if (ok & (le > allowed_l)).any():
            k = int(((le / allowed_l) * ok).argmax())
            r.viol("logabsdet_disagrees", "spline %s %s float32 logabsdet disagrees with float64 beyond conditioning" % (fam, direction),
                   x=float(xin32[k]), f32=float(l32[k]), f64=float(l64[k]), allowed=float(allowed_l[k]), sensitivity=float(sens[k]), **det)
        if float(oe.max()) > 0:
            r.cell("spline", fam, direction, ps, K, tails)
    r.sample({"spline": det, "points": n})
    return r.done()
