"""C20 - tensor and mask utilities obey their algebraic specifications; none modifies its arguments.

Monitors: icontract post-conditions (named predicates + OLD snapshots) wrapped around the REAL
functions of nflows.utils.torchutils, evaluated (a) on an exhaustive small-shape driver and
(b) on the arguments the library itself passes (contracts installed into the module while real
spline / flow / MADE workloads run).  Argument immutability additionally by the write-watch
dispatch mode."""
import itertools

import numpy as np
import torch

from vf import env
from vf.result import R
from vf.monitors import writewatch as ww

RULE = ("cases = helper function x tensor shape (all shapes with <=4 dims, extents 1..3 [1..4 thorough]) x "
        "argument values x tensor layout (contiguous / transposed view / slice of a larger tensor / requires_grad); "
        "a cell is (function, shape-or-argument class, layout) and counts only when the contract compared a "
        "non-empty result against the numpy reference")
ASSUMPTIONS = ["numpy's repeat/reshape/searchsorted/slogdet are the reference semantics",
               "torch ATen op schemas correctly declare written arguments (write-watch)"]
REQUIRED_COUNTS = ["contract_evals", "writewatch_ops", "library_contract_evals"]
BUDGET = {"case_timeout": {"quick": 200, "thorough": 1200}}


class PostBroken(Exception):
    pass


def _shapes(maxdim, maxext):
    out = []
    for nd in range(1, maxdim + 1):
        out.extend(itertools.product(range(1, maxext + 1), repeat=nd))
    return out


def gen_cases(tier, seed):
    ext = 3 if tier == "quick" else 4
    groups = ["tile", "repeat_rows", "merge_split", "sum_except_batch", "searchsorted", "cbrt",
              "logabsdet", "random_orthogonal", "masks", "temperature", "kde", "typechecks", "misc",
              "library"]
    cases = []
    reps = 2 if tier == "quick" else 30
    for g in groups:
        for rep in range(reps):
            cases.append({"group": g, "ext": ext, "rep": rep, "seed": env.subseed(seed, g, rep),
                          "world": "f64" if rep % 2 == 0 else "f32",
                          "cost": 5 if g in ("library", "searchsorted") else 1})
    return cases


# ---------------------------------------------------------------- layouts
def layouts(x, rng):
    """The same values presented as contiguous / transposed view / slice of a larger tensor / requires_grad."""
    out = [("contig", x.clone())]
    if x.dim() >= 2:
        out.append(("transposed_view", x.transpose(0, -1).contiguous().transpose(0, -1)))
    big = torch.zeros((x.shape[0] + 2,) + tuple(x.shape[1:]), dtype=x.dtype)
    big[1:-1] = x
    out.append(("slice_of_larger", big[1:-1]))
    if x.is_floating_point():
        out.append(("requires_grad", x.clone().requires_grad_(True)))
    return out


class Ctx:
    """Calls fn(*args) under write-watch + snapshots; reports mutation of any tensor argument."""

    def __init__(self, r):
        self.r = r

    def call(self, fname, fn, args, kwargs=None, cellkey=None):
        kwargs = kwargs or {}
        prot = {"arg%d" % i: a for i, a in enumerate(args) if isinstance(a, torch.Tensor)}
        prot.update({k: v for k, v in kwargs.items() if isinstance(v, torch.Tensor)})
        snap = ww.snapshot(prot)
        watch = ww.WriteWatch(prot)
        with watch:
            out = fn(*args, **kwargs)
        self.r.count("writewatch_ops", watch.ops)
        self.r.count("writewatch_write_ops", watch.write_ops)
        ch = ww.changed(snap, prot)
        if watch.events or ch:
            self.r.viol("argument_mutated", "utils.%s mutates argument" % fname, function=fname,
                        changed=ch, write_events=watch.events[:2],
                        shapes=[list(a.shape) for a in prot.values()])
        return out


def _np(t):
    return t.detach().cpu().numpy()


def empty_leading(r, ok, fname, fn, ref):
    """"for all shapes": a batch without rows is a shape too - the helpers are pure reshapes / repeats / sums and must return the
    (empty) result of the right shape instead of raising (numpy reference)"""
    for shape in ((0,), (0, 3), (0, 2, 3)):
        for n in (1, 2, 3):
            x = torch.zeros(shape)
            try:
                want = ref(np.zeros(shape), n)
            except Exception:
                continue
            try:
                y = fn(x, n)
            except Exception as e:
                ok(False, fname, "utils.%s raises on a batch without rows" % fname, shape=list(shape), n=n, exc=repr(e)[:160])
                continue
            ok(tuple(y.shape) == tuple(want.shape), fname, "utils.%s wrong shape on a batch without rows" % fname,
               shape=list(shape), n=n, got=list(y.shape), want=list(want.shape))
            r.cell(fname, "empty", len(shape), n)


def run_case(case):
    from nflows.utils import torchutils as tu
    from nflows.utils import typechecks as tc
    r = R(case)
    g = case["group"]
    rng = np.random.default_rng(case["seed"])
    torch.manual_seed(case["seed"])
    dt = torch.get_default_dtype()
    cx = Ctx(r)
    shapes = _shapes(4, case["ext"])

    def rand(shape):
        return torch.from_numpy(rng.standard_normal(shape)).to(dt)

    def ok(cond, fname, mech, **detail):
        r.ev()
        r.count("contract_evals")
        if not cond:
            r.viol("spec", mech, function=fname, **detail)

    if g == "tile":
        for shape in shapes:
            for n in (1, 2, 3, 5):
                x = torch.arange(int(np.prod(shape)), dtype=dt).reshape(shape) + 0.5
                for lname, xl in layouts(x, rng):
                    y = cx.call("tile", tu.tile, (xl, n))
                    ref = np.repeat(_np(x).reshape(-1), n)
                    ok(tuple(y.shape) == ref.shape and np.array_equal(_np(y), ref), "tile",
                       "utils.tile != consecutive repetition", shape=list(shape), n=n, layout=lname)
                    r.cell("tile", len(shape), n, lname)
        for bad in (0, -1, 2.0, "3", None):
            try:
                tu.tile(torch.zeros(2), bad)
                ok(False, "tile", "utils.tile accepts non-positive-int n", n=repr(bad))
            except TypeError:
                ok(True, "tile", "")
            except Exception as e:
                ok(False, "tile", "utils.tile wrong exception for bad n", n=repr(bad), exc=repr(e))
        empty_leading(r, ok, "tile", lambda x, n: tu.tile(x, n), lambda x, n: np.repeat(x.reshape(-1), n))
        r.sample({"fn": "tile", "x": [0.5, 1.5], "n": 2, "out": _np(tu.tile(torch.tensor([0.5, 1.5]), 2))})

    elif g == "repeat_rows":
        for shape in shapes:
            for n in (1, 2, 3, 4):
                x = rand(shape)
                for lname, xl in layouts(x, rng):
                    y = cx.call("repeat_rows", tu.repeat_rows, (xl, n))
                    ref = np.repeat(_np(x), n, axis=0)
                    ok(tuple(y.shape) == ref.shape and np.array_equal(_np(y), ref), "repeat_rows",
                       "utils.repeat_rows != np.repeat(axis=0)", shape=list(shape), n=n, layout=lname)
                    r.cell("repeat_rows", len(shape), n, lname)
        for bad in (0, -2, 1.0, None):
            try:
                tu.repeat_rows(torch.zeros(2, 2), bad)
                ok(False, "repeat_rows", "utils.repeat_rows accepts bad num_reps", n=repr(bad))
            except TypeError:
                ok(True, "repeat_rows", "")
            except Exception as e:
                ok(False, "repeat_rows", "utils.repeat_rows wrong exception", n=repr(bad), exc=repr(e))
        empty_leading(r, ok, "repeat_rows", lambda x, n: tu.repeat_rows(x, n), lambda x, n: np.repeat(x, n, axis=0))
        r.sample({"fn": "repeat_rows", "shape": [2, 2], "n": 2})

    elif g == "merge_split":
        for shape in shapes:
            x = rand(shape)
            for k in range(1, len(shape) + 1):
                for lname, xl in layouts(x, rng):
                    m = cx.call("merge_leading_dims", tu.merge_leading_dims, (xl, k))
                    exp_shape = (int(np.prod(shape[:k])),) + tuple(shape[k:])
                    ok(tuple(m.shape) == exp_shape and np.array_equal(_np(m), _np(x).reshape(exp_shape)),
                       "merge_leading_dims", "utils.merge_leading_dims wrong shape/order",
                       shape=list(shape), k=k, layout=lname)
                    s = cx.call("split_leading_dim", tu.split_leading_dim, (m, list(shape[:k])))
                    ok(tuple(s.shape) == tuple(shape) and np.array_equal(_np(s), _np(x)),
                       "split_leading_dim", "utils.split o merge != identity", shape=list(shape), k=k, layout=lname)
                    # and the other composition: merge(split(z)) == z
                    z = m
                    z2 = tu.merge_leading_dims(tu.split_leading_dim(z, list(shape[:k])), k)
                    ok(np.array_equal(_np(z2), _np(z)), "merge_leading_dims", "utils.merge o split != identity",
                       shape=list(shape), k=k)
                    r.cell("merge_split", len(shape), k, lname)
            try:
                tu.merge_leading_dims(x, len(shape) + 1)
                ok(False, "merge_leading_dims", "utils.merge_leading_dims accepts num_dims > dim")
            except ValueError:
                ok(True, "merge_leading_dims", "")
        for bad in (0, -1, 1.5):
            try:
                tu.merge_leading_dims(torch.zeros(2, 2), bad)
                ok(False, "merge_leading_dims", "utils.merge_leading_dims accepts bad num_dims", n=repr(bad))
            except TypeError:
                ok(True, "merge_leading_dims", "")
        empty_leading(r, ok, "merge_leading_dims", lambda x, n: tu.merge_leading_dims(x, min(n, x.dim())),
                      lambda x, n: x.reshape((int(np.prod(x.shape[:min(n, x.ndim)])),) + x.shape[min(n, x.ndim):]))
        empty_leading(r, ok, "split_leading_dim", lambda x, n: tu.split_leading_dim(x, [0, n]), lambda x, n: x.reshape((0, n) + x.shape[1:]))
        r.sample({"fn": "merge/split", "shape": list(shapes[-1])})

    elif g == "sum_except_batch":
        for shape in shapes:
            x = rand(shape)
            for k in range(0, len(shape) + 1):
                for lname, xl in layouts(x, rng):
                    y = cx.call("sum_except_batch", tu.sum_except_batch, (xl, k))
                    ref = _np(x).reshape(tuple(shape[:k]) + (-1,)).sum(-1)
                    tol_ = 1e-12 if dt == torch.float64 else 1e-5
                    good = tuple(y.shape) == tuple(shape[:k]) and np.allclose(_np(y), ref, rtol=tol_, atol=tol_)
                    ok(good, "sum_except_batch", "utils.sum_except_batch wrong reduction", shape=list(shape), k=k,
                       layout=lname, got_shape=list(y.shape))
                    r.cell("sum_except_batch", len(shape), k, lname)
            y = tu.sum_except_batch(x)
            ok(tuple(y.shape) == (shape[0],), "sum_except_batch", "utils.sum_except_batch default keeps batch",
               shape=list(shape))
        # double-precision sums stay double-precision accurate: terms that a single-precision accumulator cannot hold
        xb = torch.tensor([[2.0 ** 24, 1.0, 1.0, 1.0], [1e10, 1.0, -1e10, 0.25]], dtype=torch.float64)
        yb = tu.sum_except_batch(xb)
        ok(yb.dtype == torch.float64 and yb.tolist() == [2.0 ** 24 + 3.0, 1.25], "sum_except_batch",
           "utils.sum_except_batch loses double precision", got=yb.tolist(), dtype=str(yb.dtype))
        empty_leading(r, ok, "sum_except_batch", lambda x, n: tu.sum_except_batch(x, min(n, x.dim())),
                      lambda x, n: np.zeros(x.shape[:min(n, x.ndim)]))
        r.sample({"fn": "sum_except_batch", "shape": list(shapes[-1]), "k": 1})

    elif g == "searchsorted":
        for K in (1, 2, 3, 5, 8):
            for lead in ((), (1,), (3,), (2, 3), (2, 1, 2)):
                for scale, shift in ((1.0, 0.0), (2.0, -1.0), (6.0, -3.0), (2.0, -3.0), (2.0, -2.0), (0.5, -40.0),
                                     (100.0, -50.0)):
                    w = rng.random(lead + (K,)) + 0.05
                    loc = np.concatenate([np.zeros(lead + (1,)), np.cumsum(w, -1)], -1)
                    loc = loc / loc[..., -1:]
                    loc = loc * scale + shift
                    loc_t = torch.from_numpy(loc).to(dt)
                    locn = _np(loc_t).astype(np.float64)
                    # inputs: every knot (incl. both end-points), mid-points, random interior
                    pts = [locn[..., i] for i in range(K + 1)]
                    pts += [(locn[..., i] + locn[..., i + 1]) / 2 for i in range(K)]
                    u = rng.random(lead)
                    pts += [locn[..., 0] + u * (locn[..., -1] - locn[..., 0])]
                    for pi, p in enumerate(pts):
                        x_t = torch.from_numpy(np.asarray(p)).to(dt)
                        xn = _np(x_t).astype(np.float64)
                        for lname, ll in (("contig", loc_t.clone()),
                                          ("expanded", loc_t.clone()[None].expand((2,) + tuple(loc_t.shape))[0]),
                                          ("slice_of_larger", torch.cat([loc_t, loc_t], -1)[..., :K + 1])):
                            idx = cx.call("searchsorted", tu.searchsorted, (ll, x_t.clone()))
                            ref = np.sum(xn[..., None] >= locn, axis=-1) - 1
                            ref = np.minimum(ref, K - 1)  # last bin is closed on the right
                            ok(tuple(idx.shape) == ref.shape and np.array_equal(_np(idx), ref), "searchsorted",
                               "utils.searchsorted wrong bin", K=K, lead=list(lead), point_class=(
                                   "knot" if pi <= K else "interior"), layout=lname,
                               got=_np(idx).tolist() if idx.numel() < 8 else None,
                               ref=ref.tolist() if ref.size < 8 else None)
                            ok(idx.dtype in (torch.int64, torch.int32), "searchsorted", "utils.searchsorted dtype")
                            r.cell("searchsorted", K, len(lead), "knot" if pi <= K else "interior", lname)
        # edges and inputs of different floating dtypes: the comparison has to happen in the wider type, an input a hair below
        # an edge (not representable in the narrower type) belongs to the bin on the left
        for e_dt, x_dt in ((torch.float32, torch.float64), (torch.float64, torch.float32)):
            for K in (1, 2, 4, 8):
                for scale, shift in ((1.0, 0.0), (6.0, -3.0), (100.0, -50.0)):
                    w = rng.random(K) + 0.05
                    loc = np.concatenate([[0.0], np.cumsum(w)])
                    loc = loc / loc[-1] * scale + shift
                    loc_t = torch.from_numpy(loc).to(e_dt)
                    locn = _np(loc_t).astype(np.float64)
                    pts = []
                    for i in range(K + 1):
                        k = locn[i]
                        pts += [k, (k + locn[min(i + 1, K)]) / 2]
                        if x_dt == torch.float64:
                            pts += [np.nextafter(k, -np.inf), np.nextafter(k, np.inf), k - 1e-12 * scale, k + 1e-12 * scale]
                        else:
                            k32 = np.float32(k)
                            pts += [float(np.nextafter(k32, np.float32(-np.inf))), float(np.nextafter(k32, np.float32(np.inf)))]
                    pts = np.clip(np.asarray(pts, dtype=np.float64), locn[0], locn[-1])
                    x_t = torch.from_numpy(pts).to(x_dt)
                    xn = _np(x_t).astype(np.float64)
                    try:
                        idx = cx.call("searchsorted", tu.searchsorted, (loc_t.clone(), x_t.clone()))
                    except Exception as e:
                        ok(False, "searchsorted", "utils.searchsorted raises on edges / inputs of different float dtypes",
                           edges=str(e_dt), inputs=str(x_dt), exc=repr(e)[:150])
                        continue
                    ref = np.minimum(np.sum(xn[:, None] >= locn[None], axis=-1) - 1, K - 1)
                    bad = np.nonzero(_np(idx) != ref)[0]
                    ok(bad.size == 0, "searchsorted", "utils.searchsorted wrong bin (edges and inputs of different float dtypes)",
                       edges=str(e_dt), inputs=str(x_dt), K=K, x=xn[bad[:3]].tolist(), got=_np(idx)[bad[:3]].tolist(),
                       ref=ref[bad[:3]].tolist())
                    r.cell("searchsorted_mixed", str(e_dt), K, scale)
        r.sample({"fn": "searchsorted", "loc": [0, 0.3, 1.0], "x": [0.0, 0.3, 0.5, 1.0],
                  "out": _np(tu.searchsorted(torch.tensor([0, 0.3, 1.0]), torch.tensor([0.0, 0.3, 0.5, 1.0])))})

    elif g == "cbrt":
        vals = np.concatenate([[0.0, -0.0, 1.0, -1.0, 8.0, -27.0, 1e-12, -1e-12, 1e12, -1e12, 1e-30, -1e30],
                               rng.standard_normal(2000) * 10.0 ** rng.integers(-6, 7, 2000)])
        x = torch.from_numpy(vals).to(dt)
        for lname, xl in layouts(x, rng):
            y = cx.call("cbrt", tu.cbrt, (xl,))
            yy = _np(y).astype(np.float64)
            xx = _np(x).astype(np.float64)
            tol = 1e-12 if dt == torch.float64 else 2e-6
            good = np.all(np.isfinite(yy)) and np.all(np.abs(yy ** 3 - xx) <= tol * (1 + np.abs(xx)) + 0) \
                and np.all(np.sign(yy) == np.sign(xx))
            ok(bool(good), "cbrt", "utils.cbrt(x)^3 != x", layout=lname,
               worst=float(np.nanmax(np.abs(yy ** 3 - xx) / (1 + np.abs(xx)))))
            ref = np.cbrt(xx)
            ok(bool(np.allclose(yy, ref, rtol=1e-5 if dt == torch.float32 else 1e-12, atol=0)), "cbrt",
               "utils.cbrt != np.cbrt", layout=lname)
            r.worst("cbrt_rel_err/tol", float(np.nanmax(np.abs(yy ** 3 - xx) / (1 + np.abs(xx)))) / tol)
            r.cell("cbrt", lname, str(dt))
        r.sample({"fn": "cbrt", "x": [-27.0, 0.0, 8.0], "out": _np(tu.cbrt(torch.tensor([-27.0, 0.0, 8.0])))})

    elif g == "logabsdet":
        for n in (1, 2, 3, 4, 6, 24, 48, 96, 160):
            for kind in ("pos", "neg", "random", "near_singular", "scaled", "tiny_orth", "huge_orth"):
                if n > 6 and kind not in ("tiny_orth", "huge_orth", "random"):
                    continue
                a = rng.standard_normal((n, n))
                if kind in ("tiny_orth", "huge_orth"):
                    # |det| itself under/overflows in float32 (and for n=96 nearly in float64) while log|det| is modest
                    q, _ = np.linalg.qr(a)
                    a = q * (3e-3 if kind == "tiny_orth" else 3e2)
                if kind == "pos" and np.linalg.det(a) < 0:
                    a[0] *= -1
                if kind == "neg" and np.linalg.det(a) > 0:
                    a[0] *= -1
                if kind == "near_singular" and n > 1:
                    a[-1] = a[0] * (1 + 1e-5) + 1e-6 * a[-1]
                if kind == "scaled":
                    a *= 1e3
                A = torch.from_numpy(a).to(dt)
                for lname, Al in layouts(A, rng):
                    y = cx.call("logabsdet", tu.logabsdet, (Al,))
                    A64 = _np(A).astype(np.float64)
                    ref = np.linalg.slogdet(A64)[1]
                    # floating-point bound: relative perturbation eps*cond(A) of the determinant
                    eps_dt = 2.3e-16 if dt == torch.float64 else 1.2e-7
                    tol = 100 * n * eps_dt * np.linalg.cond(A64) + 10 * eps_dt
                    if tol > 0.05:
                        r.count("logabsdet_skipped_illconditioned")
                        continue
                    r.worst("logabsdet_err/tol", abs(float(y) - ref) / (tol * (1 + abs(ref))))
                    ok(y.dim() == 0 and abs(float(y) - ref) <= tol * (1 + abs(ref)), "logabsdet",
                       "utils.logabsdet != log|det|", n=n, matrix_kind=kind, got=float(y), ref=float(ref), layout=lname)
                    r.cell("logabsdet", n, kind, lname)
        r.sample({"fn": "logabsdet", "A": [[0.0, 2.0], [3.0, 0.0]],
                  "out": float(tu.logabsdet(torch.tensor([[0.0, 2.0], [3.0, 0.0]])))})

    elif g == "random_orthogonal":
        for n in range(1, 9):
            for rep in range(3):
                try:
                    q = tu.random_orthogonal(n)
                except Exception as e:
                    ok(False, "random_orthogonal", "utils.random_orthogonal raises", n=n, exc=repr(e)[:200])
                    continue
                err = float((q @ q.t() - torch.eye(n)).abs().max())
                tol = 1e-10 if dt == torch.float64 else 1e-5
                ok(tuple(q.shape) == (n, n) and err <= tol, "random_orthogonal",
                   "utils.random_orthogonal not orthogonal", n=n, err=err)
                r.worst("orth_err/tol", err / tol)
                r.cell("random_orthogonal", n)
        # distinct draws (it is documented as random)
        try:
            a, b = tu.random_orthogonal(4), tu.random_orthogonal(4)
            ok(not torch.equal(a, b), "random_orthogonal", "utils.random_orthogonal not random")
        except Exception:
            pass
        r.sample({"fn": "random_orthogonal", "n": 3})

    elif g == "masks":
        for D in range(1, 14):
            for even in (True, False):
                try:
                    m = tu.create_alternating_binary_mask(D, even=even)
                except Exception as e:
                    ok(False, "create_alternating_binary_mask", "utils.alternating mask raises for a valid size", D=D, exc=repr(e)[:200])
                    continue
                ref = np.array([(1 if (i % 2 == 0) == even else 0) for i in range(D)], dtype=np.uint8)
                ok(m.dtype == torch.uint8 and np.array_equal(_np(m), ref), "create_alternating_binary_mask",
                   "utils.alternating mask wrong pattern", D=D, even=even, got=_np(m).tolist())
                # the returned mask belongs to the caller (who may flip or re-use it): the next call gives the documented pattern
                m.fill_(1 - int(m[0]))
                m2 = tu.create_alternating_binary_mask(D, even=even)
                ok(np.array_equal(_np(m2), ref), "create_alternating_binary_mask",
                   "utils.alternating mask wrong pattern after the caller modified an earlier result", D=D, even=even, got=_np(m2).tolist())
            ones = (D + 1) // 2
            try:
                m = tu.create_mid_split_binary_mask(D)
            except Exception as e:
                ok(False, "create_mid_split_binary_mask", "utils.mid-split mask raises for a valid size", D=D, exc=repr(e)[:200])
                continue
            ref = np.array([1] * ones + [0] * (D - ones), dtype=np.uint8)
            ok(m.dtype == torch.uint8 and np.array_equal(_np(m), ref), "create_mid_split_binary_mask",
               "utils.mid-split mask wrong pattern/count", D=D, got=_np(m).tolist())
            m.copy_(1 - m)
            m2 = tu.create_mid_split_binary_mask(D)
            ok(np.array_equal(_np(m2), ref), "create_mid_split_binary_mask",
               "utils.mid-split mask wrong pattern after the caller modified an earlier result", D=D, got=_np(m2).tolist())
            seen = set()
            for rep in range(8):
                try:
                    m = tu.create_random_binary_mask(D)
                except Exception as e:
                    ok(False, "create_random_binary_mask", "utils.random mask raises for a valid size", D=D, exc=repr(e)[:200])
                    break
                mm = _np(m)
                ok(m.dtype == torch.uint8 and mm.shape == (D,) and set(mm.tolist()) <= {0, 1} and int(mm.sum()) == ones,
                   "create_random_binary_mask", "utils.random mask wrong count/values", D=D, got=mm.tolist())
                seen.add(tuple(mm.tolist()))
            if D >= 4:
                ok(len(seen) > 1, "create_random_binary_mask", "utils.random mask not random", D=D)
            r.cell("masks", D)
        r.sample({"fn": "create_mid_split_binary_mask", "D": 5, "out": _np(tu.create_mid_split_binary_mask(5))})

    elif g == "temperature":
        for mv in (0.5, 1.0, 3.0, 7.0, 20.0, 100.0, 1e4):
            for bound in (1 - 1e-3, 0.9, 0.99, 0.6):
                t = tu.get_temperature(mv, bound)
                t = float(t)
                exact = np.log(bound / (1 - bound)) / mv
                ref = min(exact, 1.0)
                ok(abs(t - ref) <= 1e-4 * (1 + abs(ref)), "get_temperature", "utils.get_temperature wrong",
                   max_value=mv, bound=bound, got=t, ref=ref)
                if exact <= 1:
                    s = 1 / (1 + np.exp(-t * mv))
                    ok(abs(s - bound) < 1e-4, "get_temperature", "utils.sigmoid(T*max) != bound", max_value=mv,
                       bound=bound, got=s)
                r.cell("temperature", mv, bound)
        r.sample({"fn": "get_temperature", "max_value": 7.0, "out": float(tu.get_temperature(7.0))})

    elif g == "kde":
        # gaussian_kde_log_eval(samples[N,D], query[M,1,D]) -> [M]; compare with a direct formula
        for N in (1, 2, 5, 30):
            for D in (1, 2, 3):
                for M in (1, 4):
                    s = rand((N, D))
                    q = rand((M, 1, D))
                    y = cx.call("gaussian_kde_log_eval", tu.gaussian_kde_log_eval, (s, q))
                    std = N ** (-1.0 / (D + 4))
                    sn, qn = _np(s).astype(np.float64), _np(q).astype(np.float64)
                    d2 = ((qn - sn[None]) ** 2).sum(-1) / std ** 2          # [M,N]
                    lk = -0.5 * d2 - np.log(N) - D / 2 * np.log(2 * np.pi) - D * np.log(std)
                    mx = lk.max(-1, keepdims=True)
                    ref = (mx + np.log(np.exp(lk - mx).sum(-1, keepdims=True)))[:, 0]
                    ok(tuple(y.shape) == (M,) and np.allclose(_np(y), ref, rtol=1e-4, atol=1e-4),
                       "gaussian_kde_log_eval", "utils.gaussian_kde_log_eval != mixture of N(s_i, h^2 I)",
                       N=N, D=D, M=M)
                    r.cell("kde", N, D, M)
                    # the same call with tensors of the floating dtype that is not the process default: results follow
                    # the arguments (nothing in the helper may be built in the default dtype)
                    odt = torch.float32 if dt == torch.float64 else torch.float64
                    try:
                        y2 = cx.call("gaussian_kde_log_eval", tu.gaussian_kde_log_eval, (s.to(odt), q.to(odt)))
                        ok(y2.dtype == odt and tuple(y2.shape) == (M,) and np.allclose(_np(y2), ref, rtol=1e-4, atol=1e-4),
                           "gaussian_kde_log_eval", "utils.gaussian_kde_log_eval wrong / wrong dtype for non-default-dtype arguments",
                           N=N, D=D, M=M, dtype=str(odt), got_dtype=str(y2.dtype))
                    except Exception as e:
                        ok(False, "gaussian_kde_log_eval", "utils.gaussian_kde_log_eval raises for non-default-dtype arguments",
                           N=N, D=D, M=M, dtype=str(odt), default=str(dt), exc=repr(e)[:150])
                    r.cell("kde_other_dtype", N, D, M, str(odt))
        r.sample({"fn": "gaussian_kde_log_eval", "N": 5, "D": 2})

    elif g == "typechecks":
        ints = [-(2 ** 40), -7, -1, 0, 1, 2, 3, 4, 6, 8, 12, 16, 1023, 1024, 2 ** 40, 2 ** 40 + 1]
        # integers around every power of two up to 2**70 and a few far beyond the range of a double: a predicate that goes
        # through floating point (log2, float division) rounds 2**k +- 1 onto 2**k from k = 49 on
        for k in list(range(1, 71)) + [100, 127, 128, 1023, 1024, 1030, 2000]:
            ints += [2 ** k - 1, 2 ** k, 2 ** k + 1, -(2 ** k), 3 * 2 ** k]
        for x in ints:
            ok(tc.is_int(x) is True, "is_int", "typechecks.is_int(int) false", x=x)
            ok(tc.is_bool(x) is False, "is_bool", "typechecks.is_bool(int) true", x=x)
            ok(bool(tc.is_positive_int(x)) == (x > 0), "is_positive_int", "typechecks.is_positive_int wrong", x=x)
            ok(bool(tc.is_nonnegative_int(x)) == (x >= 0), "is_nonnegative_int", "typechecks.is_nonnegative_int wrong", x=x)
            ref = x > 0 and (x & (x - 1)) == 0
            try:
                got = bool(tc.is_power_of_two(x))
            except Exception as e:
                ok(False, "is_power_of_two", "typechecks.is_power_of_two raises on an int", x=str(x), exc=repr(e)[:100])
                got = ref
            ok(got == ref, "is_power_of_two", "typechecks.is_power_of_two wrong", x=str(x), bits=x.bit_length())
            r.cell("typechecks", "int", min(abs(x), 2 ** 12), x.bit_length())
        nonints = [1.0, 2.0, 0.0, -1.5, float("nan"), float("inf"), "3", "", None, [1], (2,), {"a": 1},
                   np.float64(2.0), np.float32(4.0), torch.tensor(2.0), 1 + 0j, b"2"]
        for x in nonints:
            for nm in ("is_bool", "is_int", "is_positive_int", "is_nonnegative_int", "is_power_of_two"):
                try:
                    v = getattr(tc, nm)(x)
                    ok(bool(v) is False, nm, "typechecks.%s true on non-int" % nm, x=repr(x))
                except Exception as e:
                    ok(False, nm, "typechecks.%s raises on non-int" % nm, x=repr(x), exc=repr(e)[:100])
            r.cell("typechecks", "nonint", type(x).__name__)
        for b in (True, False):
            ok(tc.is_bool(b) is True, "is_bool", "typechecks.is_bool(bool) false", x=b)
        r.sample({"fn": "is_power_of_two", "x": 12, "out": bool(tc.is_power_of_two(12))})

    elif g == "misc":
        for shape in shapes[:40]:
            x = rand(shape).requires_grad_(True)
            a = tu.tensor2numpy(x * 2)
            ok(isinstance(a, np.ndarray) and np.array_equal(a, _np(x) * 2), "tensor2numpy", "utils.tensor2numpy wrong")
            r.cell("tensor2numpy", len(shape))
        for sizes in ([3], [2, 5], [4, 4, 1], [1, 1], [7, 3, 2]):
            net = torch.nn.Sequential(*[torch.nn.Linear(a, b) for a, b in zip(sizes, sizes[1:] + [2])])
            ref = sum(p.numel() for p in net.parameters())
            ok(tu.get_num_parameters(net) == ref, "get_num_parameters", "utils.get_num_parameters wrong")
            r.cell("get_num_parameters", len(sizes))
        r.sample({"fn": "tensor2numpy"})

    elif g == "library":
        _library_contracts(r, case, rng)

    return r.done()


# ------------------------------------------------------------------ library workload under contracts
def _library_contracts(r, case, rng):
    """Installs icontract post-conditions into nflows.utils.torchutils (so that every internal call
    site `torchutils.f(...)` goes through them) and runs real library workloads."""
    import icontract
    from nflows.utils import torchutils as tu
    counter = {"n": 0}

    def snap_args(*args, **kwargs):
        return [a.detach().clone() if isinstance(a, torch.Tensor) else None for a in args]

    def mk_unchanged(nargs):
        def unchanged(OLD, *args, **kwargs):
            pass
        return unchanged

    # named condition functions (argument names match the wrapped functions)
    def tile_post(x, n, result):
        counter["n"] += 1
        return bool(torch.equal(result, x.reshape(-1).repeat_interleave(n)))

    def repeat_rows_post(x, num_reps, result):
        counter["n"] += 1
        return bool(torch.equal(result, x.repeat_interleave(num_reps, dim=0)))

    def merge_post(x, num_dims, result):
        counter["n"] += 1
        return result.numel() == x.numel() and tuple(result.shape[1:]) == tuple(x.shape[num_dims:]) and \
            bool(torch.equal(result.reshape(-1), x.reshape(-1)))

    def split_post(x, shape, result):
        counter["n"] += 1
        return result.numel() == x.numel() and bool(torch.equal(result.reshape(-1), x.reshape(-1))) and \
            tuple(result.shape[len(shape):]) == tuple(x.shape[1:])

    def seb_post(x, result, num_batch_dims=1):
        counter["n"] += 1
        ref = x.reshape(tuple(x.shape[:num_batch_dims]) + (-1,)).sum(-1)
        return tuple(result.shape) == tuple(x.shape[:num_batch_dims]) and bool(
            torch.allclose(result, ref, rtol=1e-4, atol=1e-4, equal_nan=True))

    def ss_snapshot(bin_locations):
        return bin_locations.detach().clone()

    def ss_post(bin_locations, inputs, result, OLD):
        counter["n"] += 1
        if not ww.same_bits(bin_locations.detach(), OLD.loc):
            return False
        K = bin_locations.shape[-1] - 1
        loc = OLD.loc
        res = result.clamp(0, K - 1)
        lo = loc.gather(-1, res[..., None])[..., 0] if loc.dim() == result.dim() + 1 else None
        if lo is None:
            return True
        hi = loc.gather(-1, res[..., None] + 1)[..., 0]
        inside = (inputs >= loc[..., 0]) & (inputs <= loc[..., -1])
        good = (~inside) | ((inputs >= lo) & ((inputs < hi) | ((res == K - 1) & (inputs <= hi + 1e-5))))
        return bool(good.all()) and bool(((result >= 0) & (result <= K - 1))[inside].all())

    orig = {}

    def install(name, post, snapshot=None):
        f = getattr(tu, name)
        orig[name] = f
        g = icontract.ensure(post, error=PostBroken)(f)
        if snapshot is not None:
            g = icontract.snapshot(snapshot, name="loc")(g)
        setattr(tu, name, g)

    install("tile", tile_post)
    install("repeat_rows", repeat_rows_post)
    install("merge_leading_dims", merge_post)
    install("split_leading_dim", split_post)
    install("sum_except_batch", seb_post)
    install("searchsorted", ss_post, ss_snapshot)
    try:
        from nflows import transforms as T
        from nflows import flows, distributions
        from nflows.nn import nets
        from nflows.transforms import splines

        def run(label, fn):
            before = counter["n"]
            try:
                fn()
            except PostBroken as e:
                r.viol("library_contract", "utils contract broken at a library call site", workload=label,
                       error=str(e)[:300])
            except Exception as e:  # other library errors are other properties' business
                r.count("library_workload_errors")
                r.sample({"workload": label, "error": repr(e)[:200]})
            got = counter["n"] - before
            r.ev(got)
            r.count("library_contract_evals", got)
            if got:
                r.cell("library", label)

        def mknet(i, o):
            return nets.ResidualNet(i, o, hidden_features=8, num_blocks=1)

        def w_spline(fn_name, **kw):
            def go():
                f = getattr(splines, fn_name)
                n, K = 64, 5
                x = torch.rand(n) * 2 - 1 if "unconstrained" in fn_name else torch.rand(n)
                x[0] = -1.0 if "unconstrained" in fn_name else 0.0
                x[1] = 1.0
                args = dict(inputs=x)
                if "linear" in fn_name:
                    args["unnormalized_pdf"] = torch.randn(n, K)
                else:
                    args["unnormalized_widths"] = torch.randn(n, K)
                    nh = K if ("cubic" in fn_name or "rational" in fn_name) else (K - 1 if "unconstrained" in fn_name else K + 1)
                    args["unnormalized_heights"] = torch.randn(n, nh)
                if "cubic" in fn_name:
                    args["unnorm_derivatives_left"] = torch.randn(n, 1)
                    args["unnorm_derivatives_right"] = torch.randn(n, 1)
                if "rational" in fn_name:
                    args["unnormalized_derivatives"] = torch.randn(n, K - 1 if "unconstrained" in fn_name else K + 1)
                y, _ = f(**args)
                args["inputs"] = y.detach().clamp(-1, 1) if "unconstrained" in fn_name else y.detach().clamp(0, 1)
                f(inverse=True, **args)
            return go

        for nm in ("linear_spline", "quadratic_spline", "cubic_spline", "rational_quadratic_spline",
                   "unconstrained_linear_spline", "unconstrained_quadratic_spline", "unconstrained_cubic_spline",
                   "unconstrained_rational_quadratic_spline"):
            run(nm, w_spline(nm))

        def w_flow():
            f = flows.MaskedAutoregressiveFlow(features=3, hidden_features=8, num_layers=2, num_blocks_per_layer=1)
            f.eval()
            x = torch.randn(5, 3)
            f.log_prob(x)
            f.sample(4)
            f.sample_and_log_prob(3)
        run("MaskedAutoregressiveFlow", w_flow)

        def w_cflow():
            tr = T.CompositeTransform([
                T.PiecewiseRationalQuadraticCouplingTransform([1, 0, 1], lambda i, o: nets.ResidualNet(
                    i, o, hidden_features=8, context_features=2, num_blocks=1), tails="linear", num_bins=4),
                T.MaskedAffineAutoregressiveTransform(3, 8, context_features=2, num_blocks=1)])
            f = flows.Flow(tr, distributions.ConditionalDiagonalNormal([3], context_encoder=torch.nn.Linear(2, 6)))
            f.eval()
            c = torch.randn(4, 2)
            f.log_prob(torch.randn(4, 3), c)
            f.sample(3, c)
            f.sample_and_log_prob(2, c)
        run("conditional_flow", w_cflow)

        def w_made():
            from nflows.transforms import made as m1
            from nflows.nn.nde import made as m2
            for mod in (m1, m2):
                for F_, mult in ((3, 2), (4, 3), (1, 2)):
                    mod.MADE(features=F_, hidden_features=7, output_multiplier=mult, num_blocks=1)
            d = distributions.MADEMoG(features=2, hidden_features=8, context_features=2, num_mixture_components=3)
            d.eval()
            d.log_prob(torch.randn(3, 2), torch.randn(3, 2))
            d.sample(2, torch.randn(3, 2))
        run("made_and_mog", w_made)

        def w_img():
            tr = T.PiecewiseQuadraticCouplingTransform([1, 0], lambda i, o: nets.ConvResidualNet(
                i, o, hidden_channels=4, num_blocks=1), tails="linear", num_bins=3)
            x = torch.randn(2, 2, 3, 3)
            y, _ = tr(x)
            tr.inverse(y)
            T.OneByOneConvolution(2)(x)
            T.ActNorm(2)(x)
        run("image_coupling", w_img)
    finally:
        for name, f in orig.items():
            setattr(tu, name, f)
    r.sample({"library_contract_evaluations": counter["n"]})
