#!/bin/sh
# Offline set-up: third-party helpers (icontract, jsonschema) beside /venv's interpreter,
# installed into /verif/.deps (git-ignored).  Idempotent.
set -e
cd "$(dirname "$0")"
if [ ! -f .deps/.ok ]; then
  rm -rf .deps
  PIP_NO_INDEX=1 /venv/bin/pip install -q --no-index --no-deps --find-links /opt/veriftools/wheels \
    --target .deps icontract asttokens six typing_extensions jsonschema jsonschema_specifications \
    referencing rpds_py attrs >/dev/null 2>&1
  /venv/bin/python - <<'PY'
import sys; sys.path.insert(0, ".deps")
import icontract, jsonschema
PY
  touch .deps/.ok
fi
echo "setup ok"
