#!/bin/sh
# usage: sweep.sh <tier> <seed_from> <seed_to> [ids...]   - false-alarm sweep on the unchanged tree
tier=$1; a=$2; b=$3; shift 3
ids="$@"; [ -z "$ids" ] && ids="C01 C02 C03 C04 C05 C06 C07 C08 C09 C10 C11 C12 C13 C14 C15 C16 C17 C18 C19 C20"
sh ./setup.sh >/dev/null
for s in $(seq $a $b); do for c in $ids; do
  out=$(./check $c --tier $tier --seed $s 2>&1); rc=$?
  echo "$c seed=$s rc=$rc $(echo "$out" | tail -1 | cut -c1-160)"
  if [ $rc -ne 0 ]; then echo "$out" | grep -E "VIOLATION|INCONCLUSIVE|mech=" | head -6 | cut -c1-600; fi
done; done
