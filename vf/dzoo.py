"""Zoo of Distribution / Flow objects (JSON-able configs -> real library objects), companion of vf.zoo."""
import numpy as np
import torch
from torch import nn

from vf import zoo


class Encoder(nn.Module):
    """context -> 2 * prod(shape) parameters (means, log-stds) or prod(shape) logits"""

    def __init__(self, c, out, scale=1.0):
        super().__init__()
        self.l1 = nn.Linear(c, 6)
        self.l2 = nn.Linear(6, out)
        self.scale = scale

    def forward(self, x):
        return self.scale * self.l2(torch.tanh(self.l1(x)))


def sample_dist_cfg(rng, kinds=None):
    kind = str(rng.choice(kinds or ["standard", "diag", "cond_diag", "bernoulli", "mademog"]))
    if kind in ("standard", "diag", "cond_diag", "bernoulli"):
        shape = [[1], [2], [3], [2, 3], [2, 1, 2]][int(rng.integers(0, 5))]
        cfg = {"dist": kind, "shape": shape}
        if kind in ("cond_diag", "bernoulli"):
            cfg["ctx"] = int(rng.choice([1, 2, 3]))
            cfg["encoder"] = bool(rng.random() < 0.7)
            if not cfg["encoder"]:
                # identity encoder: the context itself carries the parameters
                cfg["ctx"] = int(np.prod(shape)) * (2 if kind == "cond_diag" else 1)
                if len(shape) > 1 and rng.random() < 0.5:
                    # ... in the layout of the event (last axis doubled for mean / log-std) instead of flat
                    cfg["ctx_layout"] = "structured"
        return cfg
    res = bool(rng.random() < 0.5)
    return {"dist": "mademog", "features": int(rng.integers(1, 4)), "hidden": int(rng.choice([4, 8])),
            "ctx": int(rng.choice([0, 2])), "comps": int(rng.integers(1, 5)), "blocks": int(rng.choice([1, 2])),
            "residual": res, "random_mask": (not res) and bool(rng.random() < 0.6), "narrow": bool(rng.random() < 0.3),
            "bn": bool(rng.random() < 0.3)}


def build_dist(cfg, seed=0, pscale=1.0):
    from nflows import distributions as D
    torch.manual_seed(int(seed))
    k = cfg["dist"]
    if k == "standard":
        return D.StandardNormal(cfg["shape"])
    if k == "diag":
        d = D.DiagonalNormal(cfg["shape"])
        with torch.no_grad():
            d.mean_.copy_(torch.randn(d.mean_.shape) * pscale)
            d.log_std_.copy_(torch.randn(d.log_std_.shape) * 0.5 * pscale)
        return d
    if k == "cond_diag":
        n = int(np.prod(cfg["shape"]))
        enc = Encoder(cfg["ctx"], 2 * n, 0.7 * pscale) if cfg["encoder"] else None
        return D.ConditionalDiagonalNormal(cfg["shape"], context_encoder=enc)
    if k == "bernoulli":
        n = int(np.prod(cfg["shape"]))
        enc = Encoder(cfg["ctx"], n, 1.5 * pscale) if cfg["encoder"] else None
        return D.ConditionalIndependentBernoulli(cfg["shape"], context_encoder=enc)
    if k == "mademog":
        d = D.MADEMoG(features=cfg["features"], hidden_features=max(cfg["hidden"], cfg["features"]),
                      context_features=(cfg["ctx"] or None), num_blocks=cfg["blocks"],
                      num_mixture_components=cfg["comps"], use_residual_blocks=cfg["residual"],
                      random_mask=cfg.get("random_mask", False), use_batch_norm=cfg.get("bn", False),
                      activation=zoo.ACT[cfg.get("act", "relu")], custom_initialization=True)
        with torch.no_grad():
            for p in d.parameters():
                p.add_(torch.randn(p.shape) * 0.3 * pscale)
            for m in d.modules():
                if isinstance(m, nn.BatchNorm1d):       # non-trivial running statistics: eval and training mode differ
                    m.running_mean.copy_(0.3 * torch.randn(m.running_mean.shape))
                    m.running_var.copy_(0.5 + torch.rand(m.running_var.shape))
            if cfg.get("narrow"):
                # narrow mixture components: unconstrained stds around -5 (softplus ~ 7e-3, below the epsilon floor)
                b = d._made.final_layer.bias
                b[2::3] = -5.0 + torch.randn(b[2::3].shape)
        return d
    raise ValueError(k)


def dist_meta(cfg):
    k = cfg["dist"]
    if k == "mademog":
        return {"shape": [cfg["features"]], "ctx_shape": [cfg["ctx"]] if cfg["ctx"] else None, "needs_ctx": False,
                "can_sample": True, "has_mean": False, "discrete": False}
    ctx_shape = [cfg["ctx"]] if cfg.get("ctx") else None
    if cfg.get("ctx_layout") == "structured" and not cfg.get("encoder"):
        ctx_shape = list(cfg["shape"][:-1]) + [cfg["shape"][-1] * (2 if k == "cond_diag" else 1)]
    return {"shape": cfg["shape"], "ctx_shape": ctx_shape,
            "needs_ctx": k in ("cond_diag", "bernoulli"), "can_sample": k != "diag", "has_mean": True,
            "discrete": k == "bernoulli"}


def dist_inputs(cfg, n, seed):
    m = dist_meta(cfg)
    g = torch.Generator().manual_seed(int(seed))
    if m["discrete"]:
        x = (torch.rand([n] + m["shape"], generator=g) < 0.5).to(torch.get_default_dtype())
    else:
        x = torch.randn([n] + m["shape"], generator=g) * 1.5
    c = torch.randn([n] + m["ctx_shape"], generator=g) if m["ctx_shape"] else None
    return x, c


# ----------------------------------------------------------------------------- flows
def sample_flow_cfg(rng, D=None, ctx=None):
    free = D is None
    D = D or int(rng.integers(1, 4))
    ctx = int(rng.choice([0, 0, 2])) if ctx is None else ctx
    kind = str(rng.choice(["generic", "generic", "generic", "maf", "realnvp"] + (["image"] if free else [])))
    if kind == "image":
        # a flow whose transform changes the event shape: data [C, H, W] -> squeeze -> noise [C f^2, H/f, W/f]
        f = int(rng.choice([2, 2, 3]))
        return {"flow": "image", "C": int(rng.integers(1, 3)), "H": f * int(rng.integers(1, 3)), "W": f * int(rng.integers(1, 3)),
                "factor": f, "ctx": ctx, "actnorm": bool(rng.random() < 0.5), "conv": bool(rng.random() < 0.6)}
    if kind == "maf" and ctx == 0:
        return {"flow": "maf", "D": max(D, 2), "hidden": 8, "layers": int(rng.integers(1, 3)), "blocks": 1,
                "residual": bool(rng.random() < 0.5), "random_perm": bool(rng.random() < 0.5),
                "bn_between": bool(rng.random() < 0.3), "ctx": 0}
    if kind == "realnvp" and ctx == 0:
        return {"flow": "realnvp", "D": max(D, 2), "hidden": 8, "layers": int(rng.integers(1, 3)), "blocks": 1,
                "volume_preserving": bool(rng.random() < 0.3), "bn_between": bool(rng.random() < 0.3), "ctx": 0}
    n = int(rng.integers(1, 4))
    parts = [zoo.sample_R_cfg(rng, "quick", D, ctx) for _ in range(n)]
    # at most one LogTanh: its inverse grows like exp(y / 0.013) (cut 3.5), two of them in a row send ordinary noise beyond the
    # floating range (inf -> NaN conditioner parameters -> the splines' internal assertions fire while sampling)
    seen_lt = False
    for i, c in enumerate(parts):
        if c["fam"] == "logtanh":
            if seen_lt:
                parts[i] = {"fam": "leakyrelu", "shape": c["shape"], "slope": 0.3}
            seen_lt = True
    # ... and it comes first (data side): when sampling, its exploding inverse is then applied last, so that no conditioner
    # network is fed values of 1e13 (whose spline parameters overflow and trip the splines' internal assertions)
    parts.sort(key=lambda c: 0 if c["fam"] == "logtanh" else 1)
    base = str(rng.choice(["standard", "standard", "cond_diag", "plain"])) if ctx else str(rng.choice(["standard", "standard", "plain"]))
    return {"flow": "generic", "D": D, "ctx": ctx, "parts": parts, "base": base,
            "embed": bool(ctx and rng.random() < 0.4)}


def plain_base(shape):
    """A user-defined base distribution whose log_prob / sample / sample_and_log_prob take NO context argument (Flow inspects
    the signature and supports such bases: `_context_used_in_base == False`)."""
    from nflows.distributions.base import Distribution
    from nflows.distributions import StandardNormal

    class PlainBase(Distribution):
        def __init__(self, shape):
            super().__init__()
            self.inner = StandardNormal(shape)

        def log_prob(self, inputs):
            return self.inner.log_prob(inputs)

        def sample(self, num_samples, batch_size=None):
            return self.inner.sample(num_samples, batch_size=batch_size)

        def sample_and_log_prob(self, num_samples):
            return self.inner.sample_and_log_prob(num_samples)
    return PlainBase(shape)


def build_flow(cfg, seed=0, policy="randn1"):
    from nflows import flows as Fl, transforms as T, distributions as Dd
    torch.manual_seed(int(seed))
    if cfg["flow"] == "maf":
        f = Fl.MaskedAutoregressiveFlow(features=cfg["D"], hidden_features=cfg["hidden"], num_layers=cfg["layers"],
                                        num_blocks_per_layer=cfg["blocks"], use_residual_blocks=cfg["residual"],
                                        use_random_permutations=cfg["random_perm"],
                                        batch_norm_between_layers=cfg["bn_between"])
        zoo.apply_policy(f, policy, seed + 1)
        return f
    if cfg["flow"] == "realnvp":
        f = Fl.SimpleRealNVP(features=cfg["D"], hidden_features=cfg["hidden"], num_layers=cfg["layers"],
                             num_blocks_per_layer=cfg["blocks"], use_volume_preserving=cfg["volume_preserving"],
                             batch_norm_between_layers=cfg["bn_between"])
        zoo.apply_policy(f, policy, seed + 1)
        return f
    if cfg["flow"] == "image":
        C, H, W, fct = cfg["C"], cfg["H"], cfg["W"], cfg["factor"]
        parts = [T.SqueezeTransform(factor=fct)]
        if cfg.get("actnorm"):
            parts.append(T.ActNorm(C * fct * fct))
        if cfg.get("conv"):
            parts.append(T.OneByOneConvolution(C * fct * fct, identity_init=False))
        f = Fl.Flow(T.CompositeTransform(parts), Dd.StandardNormal([C * fct * fct, H // fct, W // fct]))
        zoo.apply_policy(f, policy, seed + 1)
        return f
    D, ctx = cfg["D"], cfg["ctx"]
    ectx = ctx
    emb = None
    if cfg.get("embed"):
        emb = nn.Sequential(nn.Linear(3, ctx), nn.Tanh())
    parts = [zoo.build(c) for c in cfg["parts"]]
    tr = T.CompositeTransform(parts)
    if cfg["base"] == "standard":
        base = Dd.StandardNormal([D])
    elif cfg["base"] == "plain":
        base = plain_base([D])
    else:
        base = Dd.ConditionalDiagonalNormal([D], context_encoder=Encoder(ectx, 2 * D, 0.5))
    f = Fl.Flow(tr, base, embedding_net=emb)
    zoo.apply_policy(f, policy, seed + 1)
    return f


def flow_meta(cfg):
    if cfg["flow"] == "image":
        return {"shape": [cfg["C"], cfg["H"], cfg["W"]], "ctx_shape": [cfg["ctx"]] if cfg["ctx"] else None,
                "needs_ctx": False}
    ctx_in = None
    if cfg["ctx"]:
        ctx_in = [3] if cfg.get("embed") else [cfg["ctx"]]
    return {"shape": [cfg["D"]], "ctx_shape": ctx_in, "needs_ctx": bool(cfg["ctx"])}


def flow_inputs(cfg, n, seed):
    m = flow_meta(cfg)
    g = torch.Generator().manual_seed(int(seed))
    x = torch.randn([n] + m["shape"], generator=g) * 1.5
    c = torch.randn([n] + m["ctx_shape"], generator=g) if m["ctx_shape"] else None
    return x, c


def warm_flow(f, cfg, seed):
    """one training forward for data-dependent initialisation (ActNorm), randomised statistics already set by the policy"""
    from nflows.transforms.normalization import ActNorm
    if any(isinstance(m, ActNorm) and not bool(m.initialized) for m in f.modules()):
        f.train()
        x, c = flow_inputs(cfg, 16, seed + 31)
        with torch.no_grad():
            try:
                f.log_prob(x, c)
            except Exception:
                pass
    f.eval()
    return f


# ----------------------------------------------------------------------------- typed flow programs (C03 / C04)
PREFIX = {"R": None, "unit": "logit", "unit_c": "cauchycdfinv", "pos": "log", "m11": "atanh"}
DATA_DOM = {"R": ("R",), "unit": ("open", 0.0, 1.0), "unit_c": ("open", 0.0, 1.0), "pos": ("pos",), "m11": ("open", -1.0, 1.0)}
BODY_1D = ["pointwise_affine", "leakyrelu", "logtanh", "lu", "qr", "svd", "naive_linear", "actnorm", "batchnorm", "cdf_rq",
           "cdf_quadratic", "cdf_linear", "cdf_cubic", "ar_affine", "ar_rq", "ar_quadratic", "composite_cdf", "identity",
           "squash_pair"]
BODY_2D = BODY_1D + ["permutation", "householder", "coupling_affine", "coupling_additive", "coupling_rq", "coupling_quadratic",
                     "coupling_linear", "coupling_cubic"]


def sample_program_flow(rng, D):
    # 2-D: only data domains whose prefix has an (almost) unbounded floating-point range (see C03's reachability note)
    data = str(rng.choice(["R", "R", "R", "unit", "unit_c", "pos", "m11"] if D == 1 else ["R", "R", "unit_c", "pos"]))
    ctx = int(rng.choice([0, 0, 2]))
    n = int(rng.integers(1, 4))
    fams = BODY_1D if D == 1 else BODY_2D
    parts = []
    for _ in range(n):
        fam = str(rng.choice(fams))
        if fam in ("composite_cdf", "squash_pair"):
            c = zoo.FAM[fam].sample_cfg(rng, "quick")
            c["shape"] = [D]
        else:
            c = zoo.sample_R_cfg(rng, "quick", D, ctx if fam.startswith(("coupling", "ar_")) else 0, fams=[fam])
        if "B" in c:
            c["B"] = float(rng.choice([1.0, 2.5]))
        parts.append(c)
    seen_lt = False
    for i, c in enumerate(parts):
        if c["fam"] == "logtanh":
            if seen_lt:
                parts[i] = {"fam": "leakyrelu", "shape": c["shape"], "slope": 0.3}
            seen_lt = True
    base = str(rng.choice(["standard", "standard", "diag", "cond_diag", "mademog", "plain"] if ctx else ["standard", "standard", "diag", "mademog", "plain"]))
    if D >= 2:
        # Sigmoid..Logit pairs clamp at eps (declared): their image is only +-13.8/T.  In 2-D (no reachability test) they
        # are used only as the last part in front of a standard normal, whose mass that range covers.
        parts = [c for c in parts if c["fam"] not in ("squash_pair", "composite_cdf")] or [zoo.sample_R_cfg(rng, "quick", D, 0, fams=["lu"])]
        if rng.random() < 0.35:
            c = zoo.FAM["squash_pair"].sample_cfg(rng, "quick")
            c["shape"] = [D]
            parts.append(c)
            base = "standard"
    return {"flow": "program", "D": D, "ctx": ctx, "data": data, "parts": parts, "base": base,
            "embed": bool(ctx and rng.random() < 0.3), "embed_same_width": bool(rng.random() < 0.5),
            "narrow": bool(rng.random() < 0.3), "policy": str(rng.choice(["fresh", "randn0.3", "randn1"]))}


def embed_width(cfg):
    """input width of the embedding net: 3 (changes the width) or the context width itself (silent if mixed up)"""
    return cfg["ctx"] if cfg.get("embed_same_width") else 3


def build_program_flow(cfg, seed):
    from nflows import flows as Fl, transforms as T, distributions as Dd
    from nflows.transforms.nonlinearities import CauchyCDFInverse
    torch.manual_seed(int(seed))
    D, ctx = cfg["D"], cfg["ctx"]
    pre = PREFIX[cfg["data"]]
    parts = []
    if pre == "logit":
        parts.append(T.Logit())
    elif pre == "cauchycdfinv":
        # also with the constructor's location / scale / features arguments (ignored by the pinned tree; whatever a class does with
        # accepted arguments, the flow must stay normalised)
        parts.append(CauchyCDFInverse(location=[3.0, -2.0][int(seed) % 4 // 2], scale=[5.0, 0.3][int(seed) % 4 // 2], features=D)
                     if int(seed) % 2 else CauchyCDFInverse())
    elif pre == "log":
        parts.append(T.InverseTransform(T.Exp()))
    elif pre == "atanh":
        parts.append(T.InverseTransform(T.Tanh()))
    parts += [zoo.build(c) for c in cfg["parts"]]
    tr = T.CompositeTransform(parts)
    if cfg["base"] == "standard":
        base = Dd.StandardNormal([D])
    elif cfg["base"] == "diag":
        base = Dd.DiagonalNormal([D])
    elif cfg["base"] == "plain":
        base = plain_base([D])
    elif cfg["base"] == "cond_diag":
        base = Dd.ConditionalDiagonalNormal([D], context_encoder=Encoder(ctx, 2 * D, 0.5))
    else:
        base = Dd.MADEMoG(features=D, hidden_features=8, context_features=(ctx or None), num_blocks=1,
                          num_mixture_components=3, custom_initialization=True)
    emb = nn.Sequential(nn.Linear(embed_width(cfg), ctx), nn.Tanh()) if cfg.get("embed") else None
    f = Fl.Flow(tr, base, embedding_net=emb)
    zoo.apply_policy(f, cfg.get("policy", "randn0.3"), seed + 1)
    if cfg["base"] == "mademog" and cfg.get("narrow"):
        with torch.no_grad():
            b = base._made.final_layer.bias
            b[2::3] = -5.0 + torch.randn(b[2::3].shape)
    if cfg["base"] == "diag":
        with torch.no_grad():
            base.mean_.copy_(torch.randn(base.mean_.shape) * 0.5)
            base.log_std_.copy_(torch.randn(base.log_std_.shape) * 0.3)
    return f


def program_data_sample(cfg, n, seed):
    """in-domain data points for warming data-dependent initialisation"""
    g = torch.Generator().manual_seed(int(seed))
    D = cfg["D"]
    d = cfg["data"]
    z = torch.randn(n, D, generator=g)
    if d in ("unit", "unit_c"):
        x = torch.sigmoid(z)
    elif d == "pos":
        x = torch.exp(z)
    elif d == "m11":
        x = torch.tanh(z)
    else:
        x = z * 1.5
    c = torch.randn(n, embed_width(cfg) if cfg.get("embed") else cfg["ctx"], generator=g) if cfg["ctx"] else None
    return x, c
