"""Process-level environment for the monitors: paths, seeds, dtype worlds, repo import guard."""
import hashlib
import json
import os
import subprocess
import sys

VERIF = os.path.dirname(os.path.dirname(os.path.abspath(__file__)))
REPO = os.environ.get("VERIF_REPO", "/repo")
PY = "/venv/bin/python"
DEPS = os.path.join(VERIF, ".deps")
WORK = os.path.join(VERIF, ".work")
GUARD = "NFLOWS_VERIF"


def ensure_deps():
    """(Re)creates /verif/.deps from the offline wheelhouse when absent; appends it to sys.path
    (at the END, so /venv's own packages always win)."""
    if not os.path.exists(os.path.join(DEPS, ".ok")):
        subprocess.run(["sh", os.path.join(VERIF, "setup.sh")], check=True,
                       stdout=subprocess.DEVNULL)
    if DEPS not in sys.path:
        sys.path.append(DEPS)


def seed():
    return int(os.environ.get("VERIF_SEED", "0"))


def tier(default="quick"):
    t = os.environ.get("VERIF_TIER", default)
    return t if t in ("quick", "thorough") else default


def subseed(*parts):
    """Deterministic 31-bit seed from arbitrary JSON-able parts (independent of PYTHONHASHSEED)."""
    h = hashlib.sha256(json.dumps(parts, sort_keys=True, default=str).encode()).digest()
    return int.from_bytes(h[:4], "little") & 0x7FFFFFFF


def khash(obj, n=12):
    return hashlib.sha256(json.dumps(obj, sort_keys=True, default=str).encode()).hexdigest()[:n]


def import_repo():
    """Imports nflows from REPO's working tree and asserts that is what was imported."""
    if REPO not in sys.path:
        sys.path.insert(0, REPO)
    import warnings
    warnings.filterwarnings("ignore")
    import nflows
    got = os.path.realpath(os.path.dirname(os.path.dirname(nflows.__file__)))
    if got != os.path.realpath(REPO):
        raise RuntimeError("nflows imported from %s, expected %s" % (got, REPO))
    return nflows


def worker_init():
    os.environ[GUARD] = "1"
    import torch
    torch.set_num_threads(1)
    try:
        torch.set_num_interop_threads(1)
    except RuntimeError:
        pass
    import_repo()


def set_world(world):
    """'f64': modules are constructed and run in float64 (deciding arithmetic);
    'f32': torch defaults (what users run)."""
    import torch
    torch.set_default_dtype(torch.float64 if world == "f64" else torch.float32)
