"""Evidence writer: /verif/evidence/<id>.json, validated against the harness schema before exit."""
import json
import os

from vf import env
from vf.result import _clean

SCHEMA = "/root/.vp/EVIDENCE.schema.json"


def write(prop_id, tier, seed, coverage, wall_s, violations=0, assumptions=(), level="exploration"):
    doc = {
        "property_id": prop_id,
        "tier": tier,
        "seed": int(seed),
        "level": level,
        "coverage": _clean(coverage),
        "assumptions": list(assumptions),
        "wall_s": round(float(wall_s), 2),
        "violations": int(violations),
    }
    # jsonschema needs >=2 distinct cells for exploration; a run with fewer is inconclusive and
    # still writes what it saw (the file then fails validation, which is the honest outcome).
    path = os.path.join(env.VERIF, "evidence", prop_id + ".json")
    os.makedirs(os.path.dirname(path), exist_ok=True)
    tmp = path + ".tmp"
    with open(tmp, "w") as f:
        json.dump(doc, f, indent=1, sort_keys=True)
    os.replace(tmp, path)
    try:
        env.ensure_deps()
        import jsonschema
        if os.path.exists(SCHEMA):
            with open(SCHEMA) as f:
                schema = json.load(f)
            jsonschema.validate(doc, schema)
    except ImportError:
        pass
    except Exception as e:  # validation error: report, do not hide
        print("EVIDENCE-INVALID %s: %s" % (path, str(e)[:300]))
    return path
