"""Known-findings file (committed, never written at run time).

open[]:  {id, property, mech, where: {detail-key: required value, ...}, what}
         A violation is absorbed by an open finding only if its property matches, its `mech`
         string (computed by the check from the *mechanism* it observed: class / call site /
         regime - never from random values) equals the finding's, and every `where` entry equals
         the same key of the violation's detail.  Anything else is reported as a new violation.
fixed[]: strings 'fixed: property=<id> <commit> <what failed>'; they suppress nothing."""
import json
import os

from vf import env

PATH = os.path.join(env.VERIF, "known_findings.json")


def load():
    if not os.path.exists(PATH):
        return {"open": [], "fixed": []}
    with open(PATH) as f:
        return json.load(f)


def match(known, prop_id, violation):
    for f in known.get("open", []):
        if f["property"] != prop_id or f["mech"] != violation.get("mech"):
            continue
        det = violation.get("detail", {})
        if all(det.get(k) == v for k, v in f.get("where", {}).items()):
            return f["id"]
    return None


def describe(known, fid):
    for f in known.get("open", []):
        if f["id"] == fid:
            return "%s: %s" % (fid, f["what"])
    return fid
