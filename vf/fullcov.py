"""dev aid: VERIF_FULLCOV=<dir> ./check Cxx ... then `python -m vf.fullcov <dir>` lists nflows lines no check executed"""
import glob
import json
import os
import sys

from vf import env, linecov

d = sys.argv[1]
hits = {}
for f in glob.glob(os.path.join(d, "*.json")):
    for fn, ln in json.load(open(f)):
        hits.setdefault(fn, set()).add(ln)
root = os.path.join(env.REPO, "nflows")
tot = got = 0
for dp, _, fns in sorted(os.walk(root)):
    for fn in sorted(fns):
        if not fn.endswith(".py"):
            continue
        path = os.path.join(dp, fn)
        rel = os.path.relpath(path, root)
        ex = linecov.executable_lines(path)
        h = hits.get(rel, set())
        miss = sorted(ex - h)
        tot += len(ex)
        got += len(ex & h)
        # ranges
        rs, start, prev = [], None, None
        for ln in miss:
            if start is None:
                start = prev = ln
            elif ln <= prev + 2:
                prev = ln
            else:
                rs.append((start, prev)); start = prev = ln
        if start is not None:
            rs.append((start, prev))
        print("%-45s %4d/%4d  missing: %s" % (rel, len(ex & h), len(ex), " ".join("%d-%d" % r if r[0] != r[1] else str(r[0]) for r in rs)))
print("TOTAL %d/%d" % (got, tot))
