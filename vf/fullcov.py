"""dev aid: VERIF_FULLCOV=<dir> ./check Cxx ... then `python -m vf.fullcov <dir>` lists nflows lines no check executed"""
import glob
import json
import os
import sys

from vf import env, linecov

import ast


def stmt_lines(path):
    """first lines of statements inside function bodies (module / class level code runs at import, before monitoring)"""
    tree = ast.parse(open(path).read())
    out = set()
    for fn in ast.walk(tree):
        if isinstance(fn, (ast.FunctionDef, ast.AsyncFunctionDef)):
            for node in ast.walk(fn):
                if isinstance(node, ast.stmt) and node is not fn and not isinstance(node, (ast.FunctionDef, ast.ClassDef)):
                    if isinstance(node, ast.Expr) and isinstance(node.value, ast.Constant) and isinstance(node.value.value, str):
                        continue
                    out.add(node.lineno)
    return out


d = sys.argv[1]
hits = {}
for f in glob.glob(os.path.join(d, "*.json")):
    for fn, ln in json.load(open(f)):
        hits.setdefault(fn, set()).add(ln)
root = os.path.join(env.REPO, "nflows")
tot = got = 0
for dp, _, fns in sorted(os.walk(root)):
    for fn in sorted(fns):
        if not fn.endswith(".py"):
            continue
        path = os.path.join(dp, fn)
        rel = os.path.relpath(path, root)
        ex = stmt_lines(path)
        h = hits.get(rel, set())
        miss = sorted(ex - h)
        tot += len(ex)
        got += len(ex & h)
        # ranges
        rs, start, prev = [], None, None
        for ln in miss:
            if start is None:
                start = prev = ln
            elif ln <= prev + 2:
                prev = ln
            else:
                rs.append((start, prev)); start = prev = ln
        if start is not None:
            rs.append((start, prev))
        print("%-45s %4d/%4d  missing: %s" % (rel, len(ex & h), len(ex), " ".join("%d-%d" % r if r[0] != r[1] else str(r[0]) for r in rs)))
print("TOTAL %d/%d" % (got, tot))
