"""Anchor-reach monitor: sys.monitoring LINE events restricted to the line ranges a property's
`anchors.mechanism` names.  Every line location fires at most once (the callback returns
DISABLE), so the cost is negligible and it can run in every worker.

Purpose: evidence that the workload actually drove the anchored mechanism.  A property whose
anchored ranges were never reached makes the run *inconclusive*."""
import json
import os
import re
import sys

from vf import env

TOOL = 3  # a free tool id (0..5); 3 is not one of the well-known ones


def anchor_ranges(prop_id):
    """[(relative file, lo, hi, mechanism name)] parsed from properties.jsonl."""
    out = []
    with open(os.path.join(env.VERIF, "properties.jsonl")) as f:
        for line in f:
            p = json.loads(line)
            if p["id"] != prop_id:
                continue
            for m in p["anchors"].get("mechanism", []):
                for part in m["where"].split(";"):
                    part = part.strip()
                    mm = re.match(r"([\w/\.]+\.py):(.*)$", part)
                    if not mm:
                        continue
                    fn, rest = mm.group(1), mm.group(2)
                    for r in re.finditer(r"(\d+)(?:-(\d+))?", rest):
                        lo = int(r.group(1))
                        hi = int(r.group(2) or lo)
                        out.append((fn, lo, hi, m["name"]))
    return out


def executable_lines(path):
    lines = set()
    try:
        with open(path) as f:
            code = compile(f.read(), path, "exec")
    except (OSError, SyntaxError):
        return lines
    stack = [code]
    while stack:
        c = stack.pop()
        for _, _, ln in c.co_lines():
            if ln:
                lines.add(ln)
        for k in c.co_consts:
            if hasattr(k, "co_lines"):
                stack.append(k)
    return lines


def start(prop_id):
    mon = sys.monitoring
    ranges = anchor_ranges(prop_id)
    byfile = {}
    for fn, lo, hi, _ in ranges:
        byfile.setdefault(os.path.realpath(os.path.join(env.REPO, fn)), []).append((lo, hi))
    hits = set()
    full = os.environ.get("VERIF_FULLCOV")        # dev aid: directory that receives every executed nflows line
    allhits = set()
    root = os.path.join(os.path.realpath(env.REPO), "nflows") + os.sep

    def on_line(code, line):
        if full and os.path.realpath(code.co_filename).startswith(root):
            allhits.add((os.path.realpath(code.co_filename)[len(root):], line))
        rs = byfile.get(code.co_filename)
        if rs is None:
            rs = byfile.get(os.path.realpath(code.co_filename))
        if rs:
            for lo, hi in rs:
                if lo <= line <= hi:
                    hits.add((code.co_filename, line))
                    break
        return mon.DISABLE

    try:
        mon.use_tool_id(TOOL, "vf-linecov")
    except ValueError:
        return None
    mon.register_callback(TOOL, mon.events.LINE, on_line)
    mon.set_events(TOOL, mon.events.LINE)
    return {"hits": hits, "ranges": ranges, "prop": prop_id, "full": full, "allhits": allhits}


def stop(state):
    mon = sys.monitoring
    mon.set_events(TOOL, 0)
    mon.register_callback(TOOL, mon.events.LINE, None)
    mon.free_tool_id(TOOL)
    if state.get("full"):
        os.makedirs(state["full"], exist_ok=True)
        with open(os.path.join(state["full"], "%s-%d.json" % (state["prop"], os.getpid())), "w") as f:
            json.dump(sorted(state["allhits"]), f)
    return sorted([os.path.relpath(f, env.REPO), ln] for f, ln in state["hits"])


def summarize(prop_id, hit_lists):
    """Merges per-worker hit lists into per-range coverage."""
    hits = set()
    for hl in hit_lists:
        for f, ln in hl:
            hits.add((f, ln))
    out = []
    reached_any = False
    for fn, lo, hi, name in anchor_ranges(prop_id):
        ex = {l for l in executable_lines(os.path.join(env.REPO, fn)) if lo <= l <= hi}
        got = {l for (f, l) in hits if f == fn and lo <= l <= hi}
        if got:
            reached_any = True
        out.append({"range": "%s:%d-%d" % (fn, lo, hi), "mechanism": name,
                    "executable_lines": len(ex), "lines_hit": len(got & ex) if ex else len(got)})
    return {"ranges": out, "ranges_reached": sum(1 for r in out if r["lines_hit"] > 0),
            "ranges_total": len(out), "reached_any": reached_any}
