"""Generates MANIFEST.json from the table below (run: /venv/bin/python -m vf.manifest_gen)."""
import json
import os

from vf import env

BASE_OFF = ("cd /repo && env -u NFLOWS_VERIF /venv/bin/python -m pytest -ra -q -p no:cacheprovider "
            "--timeout=900 --continue-on-collection-errors")

# id -> (technique, level text, level note, design ref)
CHECKS = {
    "C20": ("icontract post-conditions on the real helpers (direct exhaustive small-shape driver + contracts "
            "installed at the library's own call sites) + TorchDispatchMode write-watch and bitwise snapshots; big-integer predicates, mixed-dtype bin search, helpers called in the non-default floating dtype; batches without rows for the reshape / repeat / sum helpers; mask constructors after the caller modified an earlier result; double-precision sums at 1e-12",
            "Runtime contracts evaluated on every helper for all shapes with <=4 dims and extents <=3 (<=4 thorough), "
            "four tensor layouts, structured and random values, against numpy reference semantics; argument "
            "immutability observed op-by-op. Held-on-what-was-observed, exhaustive only over the small-shape grid.",
            "Trusts numpy reference semantics and torch's op schemas (is_write flags); sampled values beyond the shape grid.",
            "DESIGN.md section 3 C20"),
}

CHECKS["C01"] = (
    "autograd-Jacobian monitor: per-item reverse-mode Jacobian of the real forward pass (float64 world) -> slogdet vs the "
    "returned logabsdet, over the whole transform zoo x configurations x parameter policies x structured inputs; spline "
    "functions driven directly with non-default boxes; hand-chained sum for composites; finite-difference cross-check (thorough); the same oracle on 'revalued' objects (built and called with other values, then loaded); wide subjects (7-17 features, 5-8 channels), Householder vectors of unequal norm, Cauchy constructor arguments",
    "Every batch item's returned log-abs-det is compared with slogdet of that item's autograd Jacobian to 1e-7 (observed "
    "noise <= 2e-11), for all 45 transform families incl. wrappers, 2-D and image inputs, with/without context, six parameter "
    "policies (fresh, zero, randn 0.3/1/3, extreme), inputs on knots' neighbours, end-points and tail bounds. Sampled, not exhaustive.",
    "Trusts torch autograd for torch ops (cross-checked by central differences for the spline functions on the thorough tier); "
    "items with cond(J) > 1e8 or saturated outputs are counted and skipped as not decidable in float64; UMNN to 1e-6.",
    "DESIGN.md section 3 C01")

CHECKS["C02"] = (
    "round-trip monitor on the real forward/inverse (float64 deciding, float32 pass) with Jacobian-singular-value-scaled "
    "tolerances, log-det antisymmetry evaluated at inverse(y); spline functions driven directly in the inverse direction on "
    "y-knots, their ulp neighbours and box end-points; revalued objects (called with other values, then loaded) as a pre-history; training-mode round trips for layers with batch-normalised conditioners",
    "inverse(forward(x)) ~ x, forward(inverse(y)) ~ y, logabsdet_inv(y) = -logabsdet_fwd(inverse(y)) and finiteness are checked per "
    "batch item for every invertible family x configuration x six parameter policies (incl. exactly zero and strongly non-uniform) "
    "x structured inputs, with tolerance 1e-7 in float64 scaled by the item Jacobian's extreme singular values only when the "
    "unscaled test fails. Sampled, not exhaustive.",
    "Declared approximation constants honoured (Sigmoid eps, UMNN bisection 1e-4, cubic threshold); end-point overshoots below 1% of "
    "the tolerance are clamped before the second call; saturated items (|logabsdet| > 20 per item) are counted and skipped.",
    "DESIGN.md section 3 C02")

CHECKS["C06"] = (
    "taint / data-flow run of the real masked network after a call history (eval forward, load_state_dict of all-positive "
    "weights, train/eval toggle): positive-weight Jacobian gives the boolean reachability matrix of the executed computation; "
    "bit-identity spot check with random weights; triangular-Jacobian monitor on the masked autoregressive transforms; residual blocks stacked by hand on layers with non-matching degrees (refused or autoregressive)",
    "For every enumerated architecture of both MADE copies (and the mixture-of-Gaussians subclass) the reachability matrix of the "
    "network as executed is measured; because all path products are positive nothing cancels, so 'no path' is 'no dependence for any "
    "weights'. Quick: a covering subset (~4.7k architectures), thorough: the full product (features 1-6 x hidden 1-8,16,33 x blocks 0-3 x "
    "residual/feed-forward/20 random-mask draws x context x multiplier x batch-norm x dropout).",
    "Assumes monotone activations with positive derivative at the probe point and torch autograd; sizes bounded as stated.",
    "DESIGN.md section 3 C06")
CHECKS["C07"] = (
    "bitwise identity monitor + single-element perturbation (metamorphic) monitor + autograd Jacobian sparsity/sign pattern on the "
    "real coupling layers, masks enumerated exhaustively for 2..5 features with numeric values of both signs; the same calls on other memory layouts of the inputs; a twin built from a mask tensor that the caller then modifies; unconditional transform of the identity features against the library's Piecewise CDF built by hand with the layer's bins / tails / tail bound; broadcast (stride-0) inputs; infinite identity values",
    "Every non-trivial subset mask for 2-5 features, with mask values drawn from {-2,-1,0 | 0.5,1,3}, for all seven coupling classes, "
    "2-D and image inputs, both directions, with/without context and unconditional transform: identity features compared bit-for-bit, "
    "each transformed input perturbed alone and every other output required bit-identical, own output monotone.",
    "Expected transformed set computed by the harness from the mask argument (> 0); exhaustive only over the mask patterns, sampled "
    "over values, shapes and parameters.",
    "DESIGN.md section 3 C07")
CHECKS["C08"] = (
    "hand-chained reference monitor over random wrapper programs (Composite/Inverse nestings) in float64 and in the mixed "
    "default-float32 / .double() world; unique-id routing monitor for the multiscale composite against a pure-python model of the "
    "documented routing, exhaustive over shapes x split_dim x stages up to a bound; CompositeCDFTransform against squash -> cdf -> squash^-1 chained from the caller's own objects after their values changed; reference walking the structure as written; wrapper-reach clause",
    "Wrapper results are compared with the parts applied by the harness in the stated order (outputs bitwise, log-dets to 1e-12, dtype "
    "included); multiscale inputs are distinct integers and stage i adds 10^(4+i), so each output value identifies its source "
    "coordinate and the stages it traversed; inverse(forward(x)) == x exactly; log-det bookkeeping checked with per-stage scales.",
    "Parts are trusted here (C01/C02 judge them); multiscale grid bounded by extents <= 9 (1-D), <= 5x5, <= 6x3x3 (6x4x4 thorough), <= 4 stages.",
    "DESIGN.md section 3 C08")

CHECKS["C10"] = (
    "lock-step twin monitor over call histories: an uncached fresh instance synchronised through load_state_dict performs every "
    "value-returning call next to the real cached object; histories = exhaustive short ones + random long ones + a transition "
    "tour (every reachable abstract cache state x every operation, followed by observing suffixes); loads addressed to a parameter-owning sub-module, in-place updates of returned tensors, single-row batches",
    "After every forward / inverse / forward+backward-twice / deepcopy step of a history over {train, eval, use_cache, forward, "
    "inverse, training step, load_state_dict, .double()/.float()} the cached object's outputs, log-dets and input gradients "
    "are compared with an uncached twin holding the same parameters; exceptions the twin does not raise are violations. "
    "Abstract states and transitions actually visited are reported.",
    "The twin (same class/arguments, using_cache=False) is taken as the specification; parameter updates happen in training mode as "
    "the property states; feature counts 1-4; float32 default world with float64 round trips.",
    "DESIGN.md section 3 C10")

CHECKS["C09"] = (
    "order / continuity / range monitor over sorted grids evaluated by the real spline functions (uniform grid + every knot and its "
    "ulp, 1e-9, 1e-6 neighbours + end-points + tail junction), both directions, float64 and float32; the same grids as column-major tensors; output boxes with non-representable ends; asymmetric boxes with non-representable ends",
    "For 4 families x bounded boxes (square, shifted, non-square, up to 1e3) / linear tails (B 0.5..1e3) x bins 1-10 x parameter "
    "policies (exactly zero, randn 0.3/1/3, +-15 alternating) every grid row is checked for: non-decreasing, strictly growing where "
    "its own slope demands it, no jump across ulp/1e-9/1e-6 steps, end-points mapped to end-points, range kept, identity with zero "
    "log-det outside the tail bound. Tolerances are the library's own evaluation noise (256 eps x scale x max slope).",
    "Knot positions come from a reference model used only to place inputs; inverse-direction continuity is not decidable for "
    "strongly non-uniform bins (inverse slopes up to 1e13) and is skipped there; saturated points (|log-derivative| > 25 / 11 in f32) skipped.",
    "DESIGN.md section 3 C09")
CHECKS["C17"] = (
    "exception-type / finiteness monitor with single-probe batches placed on, one ulp inside/outside, 1e-6 inside/outside and far "
    "outside every domain boundary, for the restricted nonlinearities, the four spline functions (boxes and tail bounds 0.5..1e6, "
    "float32 and float64) and their coupling / autoregressive / CDF wrappers; boxes whose square leaves the floating range, one-bin splines with tails, single-row batches; double-precision inputs under a single-precision default dtype with non-representable bounds; accepted probes as requires_grad leaves; batches of 2e5 rows",
    "InputOutsideDomain (exactly the library's class or a subclass) must be raised iff the probe is outside the mathematical domain "
    "of that direction; in-domain probes must return finite numbers and raise nothing (any other exception type is a violation); "
    "unconstrained splines must accept every finite input and be the identity beyond the bound.",
    "Mathematical domains are stated in the check; float32 with parameter scale 3 is left to C19's 'moderate parameters' clause.",
    "DESIGN.md section 3 C17")

CHECKS["C11"] = (
    "algebraic cross-check monitor between the real accessors (weight, weight_inverse, logabsdet, combined accessors, matrix) and "
    "the real forward / inverse passes, exhaustive over classes x features 1-6 x Householder counts 1..2f+3 x init modes, in "
    "float64, float32 and the .double()-converted world, two rounds per object (second round on the filled cache); tiny reflection vectors in single precision",
    "forward(x) = x W^T + b, inverse(y) = (y-b) W^-T, weight_inverse() W = I, logabsdet() = slogdet(W), combined accessors = separate "
    "ones, pass log-dets = +-logabsdet(), Householder Q Q^T = I, all to 1e-9 * cond(W) (float64); usability of every accepted "
    "constructor configuration (finite, cond < 1e8 at fresh init); parameter policies incl. tiny-norm reflection vectors.",
    "torch.linalg (float64) is the reference; feature counts <= 6.",
    "DESIGN.md section 3 C11")
CHECKS["C14"] = (
    "lock-step reference-model monitor: pure-tensor models of the documented ActNorm / BatchNorm life-cycle stepped next to the "
    "real layers over histories {train, eval, forward, inverse, save+load into a fresh instance}, exhaustive to length 4 (5 thorough) "
    "plus random long histories; state_dict, outputs and log-dets compared after every step; each history with the layer alone or inside a container and with the mode set before or after load_state_dict; initialising batches far from the origin in both precisions",
    "Every step's outputs / log-dets and the full state dict are compared with the reference (1e-10); the initialising batch's outputs "
    "must have zero mean and unit variance per feature/channel; BatchNorm must refuse its inverse in training mode and only there.",
    "The variance estimator convention (ddof) is learned from the first observation and then required to stay fixed; float64 world.",
    "DESIGN.md section 3 C14")

CHECKS["C12"] = (
    "metamorphic monitor over pairs of executions: whole batch vs rows alone (batch size 1) vs a permuted batch vs the same row among "
    "extreme in-domain companions vs duplicated rows, for forward / inverse / log_prob / transform_to_noise of transforms, flows and "
    "distributions in eval mode, every variant on a fresh never-called deep copy of the model; the same batch in other memory layouts (feature-major, channels-last, strided rows); one far-out companion row (+-100) beside ordinary rows; a raising batch whose rows alone succeed",
    "Row-wise agreement to 1e-9 (float64) between the variants for the whole transform zoo (2-D and image inputs, with/without "
    "context, never-initialised ActNorm included), generic / packaged flows and all distribution classes; companions straddle the tail "
    "bounds and domain end-points so that inside/outside masks differ between the variants.",
    "Evaluation mode only (as stated); UMNN inverse to its declared bisection resolution; piecewise-linear inverses kept off exact knots.",
    "DESIGN.md section 3 C12")
CHECKS["C13"] = (
    "TorchDispatchMode write-watch on every public call (schema is_write flags x storage identity of caller tensors, parameters, "
    "buffers) + bitwise before/after snapshots (incl. the storage surrounding views) + history-independence monitor (every call of a "
    "random call sequence vs the same call on a fresh never-called copy, bit for bit) + the repository's own test-suite run under a "
    "class-level contract plugin (argument bit patterns and eval-mode state before/after each of ~670 wrapped calls); reuse/update phase: caller refills its argument tensors in place under no_grad, values change through train()..eval(), results compared bitwise with a never-called copy; training-mode flags of sub-modules and autograd status of buffers compared around every call; partly frozen flows; a third of the calls under no_grad, tensors returned by earlier calls re-checked for bit changes after every later call, inverse called on the very tensor forward returned; channels-last arguments; single-precision pre-call history",
    "For transforms, flows and distributions in eval and training mode, inputs/context presented plain, as slices of a larger tensor, "
    "non-contiguous and as requires_grad leaves: no ATen op may write into caller or (eval) model storage, snapshots must be bit-identical, "
    "training-mode writes must be on the documented statistics only, and results must not depend on earlier calls (mixed operations, mixed "
    "event shapes on shape-agnostic transforms). ~5e5 ATen ops / 1e4 in-place writes observed per quick run.",
    "Trusts ATen schema write annotations; with weight caching on, a 1e-12 difference from the cache fill order is tolerated (C10 owns caching).",
    "DESIGN.md section 3 C13")

CHECKS["C15"] = (
    "twin monitor: model A (seed s1, after a pre-save history) vs model B built from the same constructor arguments under another "
    "seed and loaded with A's state dict (strict, through torch.save/load in a BytesIO); identical call sequences (training-mode "
    "forward first, then eval forward / inverse / log_prob / sample under a common re-seed) must give bit-identical results and "
    "state dicts; reload into an instance built with other constructor-given buffer values of the same shapes (masks, permutations, affine constants); saving from a deep copy whose values moved on",
    "All zoo transform families (every source of constructor-time randomness), generic and packaged flows and all distribution classes, "
    "pre-save histories {fresh, training steps, data-dependent initialisation, eval calls filling caches}; results compared with "
    "torch.equal-on-bits; key sets compared; cases where B agreed with A even before loading are reported as trivial.",
    "Bitwise comparison is meaningful because both models run single-threaded in one process with identical inputs.",
    "DESIGN.md section 3 C15")
CHECKS["C16"] = (
    "finite-difference monitor in float64: directional derivatives from back-propagation vs Richardson-extrapolated central "
    "differences (h, h/2 with kink detection and resampling) - jointly over all parameters, per parameter tensor, for inputs and "
    "context; back-propagation executed twice (also after an inverse call filled a weight cache first); finiteness at inputs with exact zeros; "
    "float32-twin monitor (gradients of the .float() copy vs the float64 ones, norm-wise); library distributions as subjects too; sampling-path direction (sample_and_log_prob under a fixed seed as a function of context and parameters); UMNN inverse differentiability probe (open finding F-UMNN-INVERSE-GRAD); user-written bounded conditioners exposing hidden_features; first calls made under inference_mode; frozen subjects; finite differences refined at smaller steps before a verdict",
    "Relative agreement 1e-5 (observed <= 4e-9) for the whole transform zoo with smooth conditioners and small flows, both directions, "
    "training and evaluation mode; a parameter whose finite difference is non-zero must receive a finite gradient; backward must "
    "succeed repeatedly.",
    "UMNN to its declared quadrature accuracy; with weight caching on (eval) only input/context gradients are promised (cached weights are "
    "detached by design of the fix d9b1ce6); dropout off; UMNN bisection inverse not differentiated.",
    "DESIGN.md section 3 C16")

CHECKS["C19"] = (
    "dtype-twin monitor: every float32 model next to deepcopy(model).double() on x and x.double(); agreement judged against a bound of "
    "single-precision rounding plus input rounding amplified by the local conditioning measured on the float64 twin (item Jacobian; "
    "multi-scale finite-difference sensitivity of the log-det); finiteness, no exception, result dtype = input dtype; dense element-wise "
    "runs of the four spline functions (1e5-1e6 points per family/direction incl. knots); wide linear layers (192-512 features); "
    "late-conversion monitor (model used in float32, then .double(): must equal the twin converted before its first call); construction-time default-dtype clause (twin built under a float64 default and loaded); non-representable RQ tail bounds; clamp-band twins of Logit / Sigmoid.inverse; integer constructor arguments",
    "All zoo families x moderate parameter policies (fresh, randn 0.3, randn 1) x |x| <= 6 / inside boxes, both directions, flows' "
    "log_prob, BatchNorm in training mode on uncentred data (running statistics compared too).",
    "Bound constants: 64 eps32 for the result, 16 eps32 |J| for outputs, 256 (1024 inverse) eps32 x sensitivity for log-dets; items with "
    "cond(J) > 1e6 skipped; kink-tagged families sampled off their knots; composites get the sum of their parts' magnitudes.",
    "DESIGN.md section 3 C19")

CHECKS["C18"] = (
    "icontract post-conditions (named predicates) installed at class level on the real Distribution.log_prob / sample / "
    "sample_and_log_prob and Flow.sample_and_log_prob, driven over all distribution and flow classes x num_samples x batch_size x "
    "context (incl. shape-changing image flows and context-free user bases); documented-rejection probes; duplicate-draw and two-sample KS "
    "monitors for batched generation; shape contracts on the repository's own test-suite run under a class-level contract plugin; rejection probes over all row-count pairs and all (bad count, other count) combinations; scalar (label) context items of shape [rows] through nn.Embedding; count rejections through sample_and_log_prob",
    "Shapes [rows] / [n,*event] / [rows,n,*event] are asserted on every call (incl. the library's internal ones) for num_samples 1,2,5,7 x "
    "batch_size none,1,2,3,5,7,8 x context none / 1 / 3 rows / embedding net x event shapes [1],[2],[3],[2,3],[2,1,2]; valid calls must not "
    "raise; mismatching context rows must give ValueError and counts in {0,-1,2.0,'3',None} TypeError; batched sampling must not "
    "repeat draws nor change their law (KS at alpha 1e-9 on 1500 draws).",
    "Contract evaluation counts are reported and zero evaluations make the run inconclusive; bool counts not probed (bool is an int).",
    "DESIGN.md section 3 C18")

CHECKS["C03"] = (
    "quadrature monitor: exp(log_prob) of the real flow integrated over its typed data domain at three resolutions (compactified "
    "midpoint rule; sigmoid / exponential substitutions for bounded and half-line domains) for random typed programs in data "
    "dimension 1 and 2, with a reachability test of the base's mass and explicit truncation / resolution error estimates; 2-D integrals only where the flow's own draws fall inside the resolved grid; labelled UMNN probe flows judged by a reference model of open finding F-UMNN-NORM",
    "|integral - 1| <= 1e-4 + 4*est (1-D, 1e5-4e5 nodes) resp. 5e-3 + 4*est (2-D, 260^2-1400^2 nodes) for programs "
    "data-domain prefix {none, Logit, inverse Cauchy CDF, log, atanh} + 1-3 transforms (affine / linear family / all spline CDFs "
    "with tails / composite CDF / Sigmoid..Logit pairs with temperatures / masked autoregressive / couplings / norm layers / "
    "nonlinearities) x base {Standard, Diagonal, ConditionalDiagonal normal, MADEMoG} x parameter policies x context rows; packaged flows at "
    "2 features. Undecidable cases (error estimate too large, base mass unreachable from representable data) are counted, never held.",
    "Quadrature accuracy bounds what is visible (1e-4 / 5e-3); 2-D programs only use data domains whose prefix keeps (almost) all of R "
    "representable; Sigmoid..Logit pairs in 2-D only directly in front of a standard normal (declared eps clamp).",
    "DESIGN.md section 3 C03")
CHECKS["C04"] = (
    "row-wise pairing monitor (sample_and_log_prob vs log_prob one row at a time), hooked-noise replay monitor (instance-level wrapper "
    "records the noise the base hands to the transform; every sample is recomputed row by row under its own context row), and "
    "Kolmogorov-Smirnov monitors (samples vs cumulative quadrature of exp(log_prob); recorded noise vs the base density), and a block-law "
    "monitor (block i of sample(n, ctx) vs the single-row call sample(n, ctx[i:i+1]) through log p(x|c_i) - log p(x|c_j): two-sample z / KS, "
    "Gibbs' inequality) for conditional distributions and flows over conditional or context-free bases; value-update phase with the same context objects; block law also drawn in batches; flows over a scalar event",
    "Typed flow programs (1-D / 2-D) and packaged flows x context none / 1 / 3 / 4 far-apart rows / embedding net x num_samples 1,2,7: "
    "returned log-probs must equal log_prob of that sample under that context row (1e-6), sample[i,j] must be the inverse of its recorded "
    "noise under context row i (1e-9) - which decides row repetition vs tiling exactly - and 2e5 (2e6) samples must pass KS at alpha 1e-9 "
    "against the integrated density.",
    "Statistical part only for 1-D flows whose density integral was decided; DiagonalNormal (no sampling offered) replaced by StandardNormal; "
    "Sigmoid..Logit pair families excluded (declared eps clamp cannot round-trip freely drawn noise).",
    "DESIGN.md section 3 C04")

CHECKS["C05"] = (
    "exact-summation / quadrature / Gauss-Legendre / importance-sampling monitors of exp(log_prob) for every density-returning object, "
    "Kolmogorov-Smirnov / exact-tail (Chernoff) monitors of its samples against CDFs and probabilities derived from its OWN log_prob "
    "(3-D tensor-grid marginals for non-factorised MADE mixtures, saturated Bernoulli logits), and expectation monitors for mean(); single-precision KDE against its double-precision twin for data far from the origin; reported mean of MG1Uniform against the analytic expectation and the sample mean",
    "Bernoulli: exact sum over {0,1}^D; Standard / Diagonal / ConditionalDiagonal normal and MADEMoG: quadrature for 1-2 event dimensions, "
    "self-normalised importance sampling for 3-6; BoxUniform / MG1Uniform: density x support volume; LotkaVolterraOscillating: 4-D "
    "tensor Gauss-Legendre; gaussian_kde_log_eval over the query space; 2e5 samples per object against coordinate-conditional or grid-"
    "marginal CDFs at alpha 1e-9 (narrow mixture components included in 1-D); mean() type, shape and value against the expectation "
    "computed from log_prob.",
    "Integral accuracy 1e-4 (1-D) / 2e-3 (2-D) / 1e-3 (4-D) / 6 Monte-Carlo sigma (>2-D); grids are placed from sample quantiles "
    "(placement only).",
    "DESIGN.md section 3 C05")

PENDING_REASON = "check not built yet in this session (planned, see DESIGN.md section 3); not claimed until it exists and is calibrated"


def main():
    props = [json.loads(l)["id"] for l in open(os.path.join(env.VERIF, "properties.jsonl"))]
    checks = []
    for pid in props:
        if pid not in CHECKS:
            continue
        tech, text, note, ref = CHECKS[pid]
        checks.append({
            "property_id": pid,
            "quick_cmd": "./check %s --tier quick" % pid,
            "thorough_cmd": "./check %s --tier thorough" % pid,
            "evidence_file": "/verif/evidence/%s.json" % pid,
            "replay_cmd_template": "./check %s --replay {path}" % pid,
            "engine": "vf",
            "level_claimed": {"category": "exploration", "text": text, "design_ref": ref},
            "level_note": note,
            "technique": tech,
        })
    man = {
        "version": 1,
        "setup_cmd": "sh ./setup.sh",
        "hooks": {
            "guard": env.GUARD,
            "enable": "no source hooks are needed: all instrumentation (dispatch-mode write-watch, sys.monitoring "
                      "anchor reach, icontract wrappers, instance-level patches) is attached from the harness; "
                      "checks export NFLOWS_VERIF=1 for uniformity",
            "baseline_off_cmd": BASE_OFF,
            "source_commits": [],
            "add_only": True,
        },
        "engines": [{"name": "vf", "path": "/verif/vf", "serves_properties": [c["property_id"] for c in checks],
                     "kind_free_text": "python runtime-monitoring harness: sharded subprocess workers running the real "
                                       "library under generated workloads with oracles/monitors observing executions"}],
        "checks": checks,
        "not_applicable": [{"property_id": p, "reason": PENDING_REASON} for p in props if p not in CHECKS],
        "notes": "All checks honour VERIF_SEED / VERIF_TIER, import nflows from /repo's working tree, write "
                 "evidence/<id>.json themselves and exit 0 held / 1 VIOLATION / 2 INCONCLUSIVE.",
    }
    with open(os.path.join(env.VERIF, "MANIFEST.json"), "w") as f:
        json.dump(man, f, indent=1)
    env.ensure_deps()
    import jsonschema
    jsonschema.validate(man, json.load(open("/root/.vp/MANIFEST.schema.json")))
    print("MANIFEST.json written: %d checks, %d not_applicable" % (len(checks), len(man["not_applicable"])))


if __name__ == "__main__":
    main()
