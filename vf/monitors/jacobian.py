"""Jacobian monitor: per-item Jacobian of outputs w.r.t. inputs by reverse-mode autograd
(one item at a time, context row fixed), and its slogdet."""
import torch


def item_jacobian(fn, x_i, ctx_i):
    """fn(inputs[1,...], context[1,...]|None) -> (outputs[1,...], logabsdet[1]).
    Returns (J [n_out, n_in], outputs_flat, logabsdet scalar)."""
    shape = x_i.shape
    box = {}

    def f(z):
        zz = z.reshape((1,) + tuple(shape))
        out, lad = fn(zz, ctx_i[None] if ctx_i is not None else None)
        box["lad"] = lad.detach()
        box["out"] = out.detach().reshape(-1)
        return out.reshape(-1)

    J = torch.autograd.functional.jacobian(f, x_i.reshape(-1).clone())
    return J, box["out"], box["lad"].reshape(-1)[0]


def ref_logabsdet(J):
    if J.shape[0] != J.shape[1]:
        return None
    sign, lad = torch.linalg.slogdet(J)
    return lad


def elementwise_derivative(fn, x):
    """For maps where out[i] depends on x[i] only: d out / d x elementwise via one backward."""
    xx = x.clone().requires_grad_(True)
    out, lad = fn(xx)
    (g,) = torch.autograd.grad(out.sum(), xx)
    return out.detach(), lad.detach(), g
