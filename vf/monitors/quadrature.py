"""Quadrature monitor: integrates exp(log_prob) over a typed data domain.

1-D: composite midpoint rule on a compactified grid (x = L t / (1 - t^2) for the real line, affine for intervals,
x = exp(u) for the half line) at n and 2n points; the difference is the error estimate (discontinuous densities
converge like 1/n, smooth ones much faster).  2-D: tensor product of the same grids.
Also returns the cumulative integral (for CDF-based sample tests)."""
import math

import torch


def grid_1d(dom, n, L=3.0, center=0.0, scale=1.0):
    """nodes x [n] and weights w [n] of the midpoint rule on the domain (float64).
    center / scale (real line only) place the dense part of the grid; they affect accuracy, never correctness."""
    t = (torch.arange(n, dtype=torch.float64) + 0.5) / n          # (0,1) midpoints
    kind = dom[0]
    if kind in ("R", "Rb"):
        s = 2 * t - 1                                              # (-1,1)
        x = center + scale * L * s / (1 - s * s)
        w = scale * L * (1 + s * s) / (1 - s * s) ** 2 * (2.0 / n)
    elif kind == "pos":
        # x = exp(u), u on the real line
        s = 2 * t - 1
        u = 4.0 * s / (1 - s * s)
        du = 4.0 * (1 + s * s) / (1 - s * s) ** 2 * (2.0 / n)
        x = torch.exp(u)
        w = x * du
    elif kind == "open":
        # x = lo + (hi-lo) * sigmoid(u), u on the (compactified) real line: resolves mass piled up against the end-points
        lo, hi = dom[1], dom[2]
        s = 2 * t - 1
        u = L * s / (1 - s * s)
        du = L * (1 + s * s) / (1 - s * s) ** 2 * (2.0 / n)
        sg = torch.sigmoid(u)
        x = lo + (hi - lo) * sg
        w = (hi - lo) * sg * (1 - sg) * du
        inside = (x > lo) & (x < hi)
        x, w = x[inside], w[inside]
    else:
        lo, hi = dom[1], dom[2]
        x = lo + (hi - lo) * t
        w = torch.full_like(t, (hi - lo) / n)
    ok = torch.isfinite(x) & torch.isfinite(w)
    if kind == "pos":
        ok = ok & (x > 0)
    return x[ok], w[ok]


def placement(samples):
    """robust centre / scale of 1-D samples for grid placement"""
    qs = torch.quantile(samples.double().reshape(-1)[:100000], torch.tensor([0.25, 0.5, 0.75], dtype=torch.float64))
    return float(qs[1]), max(float(qs[2] - qs[0]) / 1.35, 1e-6)


def integrate_1d(logp, dom, n, chunk=200000, center=0.0, scale=1.0):
    """logp: callable x[m,1] -> log density [m].  Returns (I_n, I_2n, est, (x, cdf) on the fine grid)."""
    out = []
    fine = None
    for nn in (n, int(1.5 * n) + 1, 2 * n):
        x, w = grid_1d(dom, nn, center=center, scale=scale)
        vals = []
        for i in range(0, len(x), chunk):
            lp = logp(x[i:i + chunk, None])
            vals.append(torch.exp(lp.double()))
        p = torch.cat(vals)
        p = torch.where(torch.isfinite(p), p, torch.zeros_like(p))
        out.append(float((p * w).sum()))
        pw = p * w
        # mass to the left of each node CENTRE (second-order accurate CDF), with the total appended as last entry
        cs = torch.cumsum(pw, 0)
        fine = (torch.cat([x, x[-1:] + (x[-1:] - x[-2:-1])]), torch.cat([cs - 0.5 * pw, cs[-1:]]))
        k = max(2, len(x) // 200)
        edge = float((p * w)[:k].sum() + (p * w)[-k:].sum())
    # `edge`: mass carried by the outermost 0.5 % of the nodes on either side.  If it is not negligible the density has
    # not decayed where floating point stops resolving the domain (e.g. mass closer to the end of (-1,1) than 1e-16):
    # the integral is truncated and the caller must treat the case as undecided.
    # three non-nested resolutions: under-resolved narrow features rarely fool all pairwise differences at once
    spread = max(abs(out[2] - out[0]), abs(out[2] - out[1]), abs(out[1] - out[0]))
    return out[0], out[2], max(spread, 10.0 * edge), fine


def integrate_2d(logp, dom0, dom1, n, chunk=250000):
    """Tensor-product rule at n and 2n nodes per axis.  Returns (I_n, I_2n, est); est also covers truncation (mass carried by
    the outermost 1 % of the rows / columns of the fine grid)."""
    res = []
    edge = 0.0
    for nn in (n, int(1.5 * n) + 1, 2 * n):
        x0, w0 = grid_1d(dom0, nn)
        x1, w1 = grid_1d(dom1, nn)
        row_mass = torch.zeros(len(x0), dtype=torch.float64)
        col_mass = torch.zeros(len(x1), dtype=torch.float64)
        rows = max(1, chunk // len(x1))
        for i in range(0, len(x0), rows):
            a = x0[i:i + rows]
            pts = torch.stack([a[:, None].expand(-1, len(x1)), x1[None, :].expand(len(a), -1)], -1).reshape(-1, 2)
            lp = logp(pts).double()
            p = torch.exp(lp).reshape(len(a), len(x1))
            p = torch.where(torch.isfinite(p), p, torch.zeros_like(p))
            pw = p * w0[i:i + rows, None] * w1[None, :]
            row_mass[i:i + rows] = pw.sum(1)
            col_mass += pw.sum(0)
        res.append(float(row_mass.sum()))
        k0, k1 = max(2, len(x0) // 100), max(2, len(x1) // 100)
        edge = float(row_mass[:k0].sum() + row_mass[-k0:].sum() + col_mass[:k1].sum() + col_mass[-k1:].sum())
    spread = max(abs(res[2] - res[0]), abs(res[2] - res[1]), abs(res[1] - res[0]))
    return res[0], res[2], max(spread, 10.0 * edge)


def ks_distance(samples, grid_x, grid_cdf):
    """sup |F_emp - F_ref| with F_ref given on a grid (linear interpolation)."""
    s = torch.sort(samples.double().reshape(-1)).values
    n = len(s)
    total = float(grid_cdf[-1])
    idx = torch.searchsorted(grid_x, s).clamp(1, len(grid_x) - 1)
    x0, x1 = grid_x[idx - 1], grid_x[idx]
    c0, c1 = grid_cdf[idx - 1], grid_cdf[idx]
    f = c0 + (c1 - c0) * ((s - x0) / (x1 - x0).clamp_min(1e-300)).clamp(0, 1)
    f = torch.where(s < grid_x[0], torch.zeros_like(f), f)
    f = torch.where(s > grid_x[-1], torch.full_like(f, total), f) / total
    emp_hi = torch.arange(1, n + 1, dtype=torch.float64) / n
    emp_lo = torch.arange(0, n, dtype=torch.float64) / n
    return float(torch.maximum((emp_hi - f).abs(), (emp_lo - f).abs()).max())


def ks_crit(n, alpha=1e-9):
    return math.sqrt(math.log(2.0 / alpha) / (2.0 * n))
