"""Write-watch 'sanitizer': a TorchDispatchMode that sees every ATen op a call executes and
flags ops whose schema marks an argument as written (alias_info.is_write) when that argument
shares storage with a protected tensor (caller inputs/context, parameters, buffers).

Paired with bitwise snapshots (catches `.data =` rebinding, which is not an op)."""
import traceback

import torch
from torch.utils._python_dispatch import TorchDispatchMode


def _ptr(t):
    try:
        return t.untyped_storage().data_ptr()
    except Exception:
        return None


class WriteWatch(TorchDispatchMode):
    def __init__(self, protected, allow=()):
        """protected: {name: tensor}.  allow: names whose writes are documented (recorded, not flagged)."""
        super().__init__()
        self.map = {}
        for name, t in protected.items():
            if isinstance(t, torch.Tensor) and t.numel() > 0:
                p = _ptr(t)
                if p:
                    self.map.setdefault(p, []).append(name)
        self.allow = set(allow)
        self.ops = 0
        self.write_ops = 0
        self.events = []       # writes on protected storage not in allow
        self.allowed_events = []
        self.opnames = set()

    def __torch_dispatch__(self, func, types, args=(), kwargs=None):
        kwargs = kwargs or {}
        self.ops += 1
        try:
            schema = func._schema
            for i, a in enumerate(schema.arguments):
                ai = a.alias_info
                if ai is None or not ai.is_write:
                    continue
                val = args[i] if i < len(args) else kwargs.get(a.name)
                vals = val if isinstance(val, (list, tuple)) else [val]
                for t in vals:
                    if not isinstance(t, torch.Tensor) or t.numel() == 0:
                        continue
                    self.write_ops += 1
                    self.opnames.add(str(func))
                    names = self.map.get(_ptr(t))
                    if names:
                        ev = {"op": str(func), "protected": names,
                              "stack": [l.strip() for l in traceback.format_stack(limit=14)
                                        if "/nflows/" in l][-3:]}
                        if all(n in self.allow for n in names):
                            self.allowed_events.append(ev)
                        else:
                            self.events.append(ev)
        except Exception:
            pass
        return func(*args, **kwargs)


def snapshot(tensors):
    """Bitwise copy of {name: tensor}; for views the whole underlying storage is copied too."""
    snap = {}
    for name, t in tensors.items():
        if not isinstance(t, torch.Tensor):
            continue
        base = t
        while getattr(base, "_base", None) is not None:
            base = base._base
        snap[name] = (t.detach().clone(), base.detach().clone() if base is not t else None,
                      t.dtype, tuple(t.shape), tuple(t.stride()), t.requires_grad)
    return snap


def same_bits(a, b):
    if a.dtype != b.dtype or a.shape != b.shape:
        return False
    if a.numel() == 0:
        return True
    if a.is_floating_point():
        ia = a.contiguous().view(torch.int64 if a.dtype == torch.float64 else
                                 torch.int32 if a.dtype == torch.float32 else torch.int16)
        ib = b.contiguous().view(ia.dtype)
        return bool(torch.equal(ia, ib))
    return bool(torch.equal(a, b))


def changed(snap, tensors):
    """Names whose bits / dtype / shape / stride / requires_grad differ from the snapshot."""
    out = []
    for name, (val, baseval, dtype, shape, stride, rg) in snap.items():
        t = tensors[name]
        if t.dtype != dtype or tuple(t.shape) != shape or tuple(t.stride()) != stride or t.requires_grad != rg:
            out.append(name + ":meta")
            continue
        if not same_bits(t.detach(), val):
            out.append(name)
            continue
        if baseval is not None:
            base = t
            while getattr(base, "_base", None) is not None:
                base = base._base
            if not same_bits(base.detach(), baseval):
                out.append(name + ":surrounding-storage")
    return out
