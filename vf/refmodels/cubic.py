"""Reference model of the monotone cubic spline's parameterisation (Steffen-style knot derivatives),
used (a) to classify observations of the known cubic-inverse finding by MECHANISM (is this element in the
'almost quadratic' fallback regime |a| < quadratic_threshold, is its fallback discriminant negative, is the
cubic's own discriminant ~0) and (b) as an independent inverse (bisection on the reference cubic)."""
import torch
from torch.nn import functional as F


def coefficients(uw, uh, udl, udr, min_bin_width=1e-3, min_bin_height=1e-3):
    K = uw.shape[-1]
    w = min_bin_width + (1 - min_bin_width * K) * F.softmax(uw, -1)
    cw = torch.cumsum(w, -1)
    cw[..., -1] = 1
    cw = F.pad(cw, (1, 0))
    h = min_bin_height + (1 - min_bin_height * K) * F.softmax(uh, -1)
    ch = torch.cumsum(h, -1)
    ch[..., -1] = 1
    ch = F.pad(ch, (1, 0))
    s = h / w
    m1 = torch.min(s[..., :-1].abs(), s[..., 1:].abs())
    m2 = 0.5 * (w[..., 1:] * s[..., :-1] + w[..., :-1] * s[..., 1:]) / (w[..., :-1] + w[..., 1:])
    dl = torch.sigmoid(udl) * 3 * s[..., :1]
    dr = torch.sigmoid(udr) * 3 * s[..., -1:]
    d = torch.min(m1, m2) * (torch.sign(s[..., :-1]) + torch.sign(s[..., 1:]))
    d = torch.cat([dl, d, dr], -1)
    a = (d[..., :-1] + d[..., 1:] - 2 * s) / w.pow(2)
    b = (3 * s - 2 * d[..., :-1] - d[..., 1:]) / w
    c = d[..., :-1]
    e = ch[..., :-1]
    return {"a": a, "b": b, "c": c, "d": e, "cw": cw, "ch": ch, "w": w}


def locate_y(co, y01):
    """bin index of normalised y in the reference knots."""
    ch = co["ch"]
    idx = (y01[..., None] >= ch[..., :-1]).sum(-1) - 1
    return idx.clamp(0, ch.shape[-1] - 2)


def regime(co, y01, quadratic_threshold=1e-3):
    """Per element: dict of boolean tensors describing which branch the library's inverse takes."""
    idx = locate_y(co, y01)[..., None]
    a = co["a"].gather(-1, idx)[..., 0]
    b = co["b"].gather(-1, idx)[..., 0]
    c = co["c"].gather(-1, idx)[..., 0]
    d = co["d"].gather(-1, idx)[..., 0]
    w = co["w"].gather(-1, idx)[..., 0]
    fallback = a.abs() < quadratic_threshold
    fdisc = c.pow(2) - 4 * b * (d - y01)
    # size of the neglected cubic term over the bin, in normalised y
    neglected = a.abs() * w.pow(3)
    return {"fallback": fallback, "fallback_disc_negative": fallback & (fdisc < 0), "neglected": neglected,
            "a": a, "w": w}


def inverse_bisect(co, y01, iters=80):
    idx = locate_y(co, y01)[..., None]
    a = co["a"].gather(-1, idx)[..., 0]
    b = co["b"].gather(-1, idx)[..., 0]
    c = co["c"].gather(-1, idx)[..., 0]
    d = co["d"].gather(-1, idx)[..., 0]
    w = co["w"].gather(-1, idx)[..., 0]
    x0 = co["cw"].gather(-1, idx)[..., 0]
    lo = torch.zeros_like(y01)
    hi = w.clone()
    for _ in range(iters):
        mid = (lo + hi) / 2
        val = ((a * mid + b) * mid + c) * mid + d
        up = val < y01
        lo = torch.where(up, mid, lo)
        hi = torch.where(up, hi, mid)
    return x0 + (lo + hi) / 2
