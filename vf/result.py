"""Per-case result record produced by a check's run_case()."""
import math


def _clean(x):
    """JSON-safe conversion (tensors -> lists, non-finite floats -> strings)."""
    try:
        import torch
        if isinstance(x, torch.Tensor):
            x = x.detach().cpu().tolist()
    except ImportError:
        pass
    try:
        import numpy as np
        if isinstance(x, np.generic):
            x = x.item()
        elif isinstance(x, np.ndarray):
            x = x.tolist()
    except ImportError:
        pass
    if isinstance(x, float):
        if math.isnan(x) or math.isinf(x):
            return repr(x)
        return x
    if isinstance(x, (bool, int, str)) or x is None:
        return x
    if isinstance(x, dict):
        return {str(k): _clean(v) for k, v in x.items()}
    if isinstance(x, (list, tuple, set)):
        return [_clean(v) for v in x]
    return repr(x)


class R:
    def __init__(self, case):
        self.case = case
        self.evals = 0
        self.cells = set()
        self.violations = []
        self.metrics = {}     # name -> max value
        self.counts = {}      # name -> summed
        self.samples = []
        self.inconclusive = []

    def ev(self, n=1):
        self.evals += int(n)

    def cell(self, *key):
        self.cells.add("|".join(str(k) for k in key))

    def viol(self, kind, mech, **detail):
        if len(self.violations) < 20:
            self.violations.append({"kind": kind, "mech": mech, "detail": _clean(detail)})
        else:
            self.count("violations_truncated")

    def worst(self, name, value):
        try:
            v = float(value)
        except (TypeError, ValueError):
            return
        if math.isnan(v):
            v = float("inf")
        if name not in self.metrics or v > self.metrics[name]:
            self.metrics[name] = v

    def count(self, name, n=1):
        self.counts[name] = self.counts.get(name, 0) + int(n)

    def sample(self, obj):
        if len(self.samples) < 2:
            self.samples.append(_clean(obj))

    def inconc(self, reason):
        self.inconclusive.append(str(reason))

    def done(self):
        return {
            "case": self.case,
            "evals": self.evals,
            "cells": sorted(self.cells),
            "violations": self.violations,
            "metrics": _clean(self.metrics),
            "counts": self.counts,
            "samples": self.samples,
            "inconclusive": self.inconclusive,
        }
