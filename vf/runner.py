"""Runs one property check: shard cases over subprocess workers, aggregate, decide, write evidence.

Verdict is three-valued:
  exit 0  held on everything observed (every deciding monitor fired; KNOWN-FINDING lines allowed)
  exit 1  at least one violation not listed in known_findings.json  (VIOLATION line + replay file)
  exit 2  inconclusive (worker died / watchdog / monitors never fired / anchors never reached)
"""
import importlib
import json
import os
import shutil
import subprocess
import sys
import time

from vf import env, evidence, findings, linecov


def _shard(cases, n):
    shards = [[] for _ in range(n)]
    # round-robin after a stable sort by estimated cost (heavy cases spread out)
    order = sorted(range(len(cases)), key=lambda i: -float(cases[i].get("cost", 1.0)))
    for k, i in enumerate(order):
        shards[k % n].append(cases[i])
    return [s for s in shards if s]


def run_shards(modname, prop_id, cases, jobs, case_timeout, shard_timeout):
    work = os.path.join(env.WORK, "%s-%d" % (prop_id, os.getpid()))
    shutil.rmtree(work, ignore_errors=True)
    os.makedirs(work)
    results, dead, covs = [], [], []
    try:
        pending = _shard(cases, jobs)
        attempt = 0
        while pending and attempt < 3:
            procs = []
            for si, sc in enumerate(pending):
                inp = os.path.join(work, "in_%d_%d.json" % (attempt, si))
                outp = os.path.join(work, "out_%d_%d.jsonl" % (attempt, si))
                with open(inp, "w") as f:
                    json.dump({"cases": sc, "case_timeout": case_timeout, "linecov": prop_id}, f)
                envv = dict(os.environ, PYTHONHASHSEED="0", OMP_NUM_THREADS="1",
                            MKL_NUM_THREADS="1", PYTHONWARNINGS="ignore")
                envv[env.GUARD] = "1"
                p = subprocess.Popen([env.PY, "-m", "vf.worker", modname, inp, outp],
                                     cwd=env.VERIF, env=envv, stdout=subprocess.DEVNULL,
                                     stderr=open(os.path.join(work, "err_%d_%d.txt" % (attempt, si)), "w"))
                procs.append((p, sc, outp, os.path.join(work, "err_%d_%d.txt" % (attempt, si))))
            deadline = time.time() + shard_timeout
            nxt = []
            for p, sc, outp, errp in procs:
                try:
                    p.wait(timeout=max(1.0, deadline - time.time()))
                except subprocess.TimeoutExpired:
                    p.kill()
                    p.wait()
                done = []
                if os.path.exists(outp):
                    with open(outp) as f:
                        for line in f:
                            try:
                                rec = json.loads(line)
                            except ValueError:
                                continue
                            if "linecov" in rec:
                                covs.append(rec["linecov"])
                            else:
                                done.append(rec)
                results.extend(done)
                if len(done) < len(sc):
                    # the worker died (or was killed) inside case number len(done)
                    culprit = sc[len(done)]
                    err = ""
                    try:
                        with open(errp) as f:
                            err = f.read()[-800:]
                    except OSError:
                        pass
                    dead.append({"case": culprit, "returncode": p.returncode, "stderr": err})
                    rest = sc[len(done) + 1:]
                    if rest:
                        nxt.append(rest)
            pending = nxt
            attempt += 1
        for sc in pending:
            for c in sc:
                dead.append({"case": c, "returncode": None, "stderr": "not run (retries exhausted)"})
    finally:
        shutil.rmtree(work, ignore_errors=True)
        try:
            os.rmdir(env.WORK)
        except OSError:
            pass
    return results, dead, covs


def _brief(obj, limit=1500):
    """evidence samples stay readable: long lists inside a case (bundles of sub-cases, histories) are cut to their head"""
    if isinstance(obj, dict):
        return {k: _brief(v, limit) for k, v in obj.items()}
    if isinstance(obj, list):
        if len(json.dumps(obj)) > limit:
            head = [_brief(v, limit) for v in obj[:3]]
            return head + ["... (%d items in total)" % len(obj)]
        return [_brief(v, limit) for v in obj]
    return obj


def run_check(prop_id, tier, seed, jobs=None, replay=None):
    env.ensure_deps()
    modname = prop_id.lower()
    mod = importlib.import_module("checks." + modname)
    t0 = time.time()
    if replay:
        return run_replay(mod, prop_id, replay)
    jobs = jobs or int(os.environ.get("VERIF_JOBS", "16"))
    cases = mod.gen_cases(tier, seed)
    for c in cases:
        c.setdefault("tier", tier)
    budget = getattr(mod, "BUDGET", {})
    case_timeout = budget.get("case_timeout", {"quick": 120, "thorough": 600})[tier]
    shard_timeout = budget.get("shard_timeout", {"quick": 900, "thorough": 6 * 3600})[tier]
    results, dead, covs = run_shards(modname, prop_id, cases, jobs, case_timeout, shard_timeout)

    known = findings.load()
    new_viol, known_hits, inconclusive = [], {}, []
    evals = 0
    cells = set()
    metrics, counts, samples = {}, {}, []
    for r in results:
        evals += r["evals"]
        cells.update(r["cells"])
        for k, v in r["metrics"].items():
            if isinstance(v, str):
                v = float(v.replace("'", ""))
            if k not in metrics or v > metrics[k]:
                metrics[k] = v
        for k, v in r["counts"].items():
            counts[k] = counts.get(k, 0) + v
        if r["samples"] and len(samples) < 6:
            samples.append({"case": _brief(r["case"]), "observed": _brief(r["samples"][0])})
        for why in r["inconclusive"]:
            inconclusive.append({"case": r["case"], "why": why})
        for v in r["violations"]:
            fid = findings.match(known, prop_id, v)
            if fid:
                known_hits.setdefault(fid, []).append({"case": r["case"], "violation": v})
            else:
                new_viol.append({"case": r["case"], "violation": v})
    for d in dead:
        inconclusive.append({"case": d["case"], "why": "worker died rc=%s %s" % (d["returncode"], d["stderr"][-300:])})

    cov = linecov.summarize(prop_id, covs)
    extra = {}
    if hasattr(mod, "summarize"):
        extra = mod.summarize(results) or {}
    required = getattr(mod, "REQUIRED_COUNTS", [])
    missing = [k for k in required if counts.get(k, 0) == 0]

    # ---- report ----
    replay_paths = []
    if new_viol:
        rdir = os.path.join(env.VERIF, "replays", prop_id)
        os.makedirs(rdir, exist_ok=True)
        seen = set()
        for nv in new_viol:
            key = env.khash([nv["case"], nv["violation"]["kind"], nv["violation"]["mech"]])
            if key in seen:
                continue
            seen.add(key)
            path = os.path.join(rdir, key + ".json")
            with open(path, "w") as f:
                json.dump({"property": prop_id, "case": nv["case"], "violation": nv["violation"]}, f, indent=1)
            replay_paths.append(path)
            if len(replay_paths) <= 25:
                print("VIOLATION property=%s replay=%s" % (prop_id, path))
                print("  kind=%s mech=%s detail=%s" % (nv["violation"]["kind"], nv["violation"]["mech"],
                                                      json.dumps(nv["violation"]["detail"])[:400]))
    for fid, hits in sorted(known_hits.items()):
        print("KNOWN-FINDING: property=%s %s (%d observation(s) this run)" % (
            prop_id, findings.describe(known, fid), len(hits)))

    status = "held"
    reasons = []
    if new_viol:
        status = "violated"
    else:
        if inconclusive:
            reasons.append("%d inconclusive case(s), first: %s" % (len(inconclusive), json.dumps(inconclusive[0])[:600]))
        if evals == 0:
            reasons.append("no monitor evaluation happened")
        if missing:
            reasons.append("deciding monitors never fired: %s" % missing)
        if len(cells) < 2:
            reasons.append("fewer than 2 distinct non-trivial cells")
        if not cov["reached_any"] and cov["ranges_total"] > 0 and not getattr(mod, "LINECOV_OPTIONAL", False):
            reasons.append("no anchored line range was reached")
        if reasons:
            status = "inconclusive"

    wall = time.time() - t0
    coverage = {
        "evaluations": int(evals),
        "distinct_nontrivial": int(len(cells)),
        "rule": getattr(mod, "RULE", ""),
        "samples": samples[:6] if samples else [{"note": "no sample recorded"}],
        "cases_generated": len(cases),
        "cases_completed": len(results),
        "worst_margins": metrics,
        "monitor_counters": counts,
        "anchor_reach": cov,
        "verdict": status,
        "known_findings_observed": {k: len(v) for k, v in known_hits.items()},
        "inconclusive": inconclusive[:5],
    }
    coverage.update(extra)
    evidence.write(prop_id, tier, seed, coverage, wall,
                   violations=len(new_viol),
                   assumptions=getattr(mod, "ASSUMPTIONS", []))
    print("%s tier=%s seed=%d cases=%d evaluations=%d distinct_nontrivial=%d anchors=%d/%d wall=%.1fs verdict=%s" % (
        prop_id, tier, seed, len(cases), evals, len(cells), cov["ranges_reached"], cov["ranges_total"], wall, status))
    if status == "violated":
        return 1
    if status == "inconclusive":
        for r in reasons:
            print("INCONCLUSIVE property=%s reason=%s" % (prop_id, r))
        return 2
    return 0


def run_replay(mod, prop_id, path):
    from vf import worker
    env.worker_init()
    with open(path) as f:
        rec = json.load(f)
    res = worker.run_one(mod, rec["case"], 3600)
    print(json.dumps(res, indent=1)[:6000])
    known = findings.load()
    bad = [v for v in res["violations"] if not findings.match(known, prop_id, v)]
    if bad:
        print("VIOLATION property=%s replay=%s" % (prop_id, path))
        return 1
    if res["inconclusive"]:
        print("INCONCLUSIVE property=%s reason=%s" % (prop_id, res["inconclusive"][0][:300]))
        return 2
    print("replay: no violation reproduced")
    return 0
