"""Helpers to drive the four spline *functions* directly: random parameters, a reference model of
where the x-knots are (used ONLY to place inputs - if it were wrong it would cost coverage,
never soundness), and structured input placement."""
import torch
from torch.nn import functional as F

BOXES = [
    [0.0, 1.0, 0.0, 1.0],      # default unit box
    [-1.0, 1.0, -1.0, 1.0],    # what linear tails use
    [0.0, 2.0, 0.0, 4.0],      # non-square
    [-3.0, 1.0, 2.0, 2.5],     # shifted, non-square, shrinking
    [-5.0, 5.0, -5.0, 5.0],
    [0.0, 1.0, -2.0, 2.0],
    [10.0, 12.0, -1.0, 0.0],
    # output intervals whose ends are not representable: bottom + (top - bottom) * 1.0 may round to top + 1 ulp
    [0.0, 1.0, 0.1, 0.7],
    [0.0, 1.0, 1.1, 2.3],
    [-0.7, 0.1, -1.0, 1.0],
]

POINT_CLASSES = ["lo", "hi", "lo+ulp", "hi-ulp", "lo+1e-9", "hi-1e-9", "knot", "knot+ulp", "knot-ulp",
                 "knot+1e-9", "knot-1e-9", "knot+1e-6", "knot-1e-6", "mid", "rand1", "rand2", "rand3"]
TAIL_CLASSES = ["B+ulp", "-B-ulp", "1.5B", "-1.5B", "100B", "-100B"]


def fn(family, unconstrained):
    from nflows.transforms import splines
    name = {"linear": "linear_spline", "quadratic": "quadratic_spline", "cubic": "cubic_spline",
            "rq": "rational_quadratic_spline"}[family]
    if unconstrained:
        name = "unconstrained_" + name
    return getattr(splines, name)


def random_params(family, n, K, scale, g, tails=False):
    def rn(*s):
        return torch.randn(*s, generator=g) * scale
    if family == "linear":
        return {"unnormalized_pdf": rn(n, K)}
    if family == "quadratic":
        return {"unnormalized_widths": rn(n, K), "unnormalized_heights": rn(n, K - 1 if tails else K + 1)}
    if family == "cubic":
        return {"unnormalized_widths": rn(n, K), "unnormalized_heights": rn(n, K),
                "unnorm_derivatives_left": rn(n, 1), "unnorm_derivatives_right": rn(n, 1)}
    if family == "rq":
        return {"unnormalized_widths": rn(n, K), "unnormalized_heights": rn(n, K),
                "unnormalized_derivatives": rn(n, K - 1 if tails else K + 1)}
    raise ValueError(family)


def min_bins(family, tails):
    """every family takes bin counts from 1 (the property says so); kept as a function for the callers"""
    return 1


def knots(family, params, left, right, bottom, top, tails=False, min_bin_width=1e-3):
    """x-knots [n, K+1] of the spline (reference model of the documented parameterisation)."""
    if family == "linear":
        n, K = params["unnormalized_pdf"].shape
        x = torch.linspace(0, 1, K + 1)[None].expand(n, -1)
    else:
        uw = params["unnormalized_widths"]
        K = uw.shape[-1]
        w = F.softmax(uw, dim=-1)
        w = min_bin_width + (1 - min_bin_width * K) * w
        x = F.pad(torch.cumsum(w, -1), (1, 0))
        x[..., -1] = 1.0
    return {"x": left + (right - left) * x}


def _ulp(x, up):
    inf = torch.full_like(x, float("inf") if up else float("-inf"))
    return torch.nextafter(x, inf)


def place_inputs(kn, lo, hi, g, tails_B=None):
    """[n, P] inputs: end-points, their neighbours, a random interior knot per row and its floating-point
    neighbours, mid-bin points, random interior points (+ tail-region points for unconstrained splines)."""
    n, K1 = kn.shape
    lo_t = torch.full((n,), float(lo))
    hi_t = torch.full((n,), float(hi))
    rngw = hi - lo
    if K1 > 2:
        j = torch.randint(1, K1 - 1, (n,), generator=g)
    else:
        j = torch.zeros(n, dtype=torch.long)
    k = kn.gather(1, j[:, None])[:, 0]
    jj = torch.randint(0, K1 - 1, (n,), generator=g)
    mid = (kn.gather(1, jj[:, None])[:, 0] + kn.gather(1, jj[:, None] + 1)[:, 0]) / 2
    cols = [lo_t, hi_t, _ulp(lo_t, True), _ulp(hi_t, False), lo_t + 1e-9 * rngw, hi_t - 1e-9 * rngw,
            k, _ulp(k, True), _ulp(k, False), k + 1e-9 * rngw, k - 1e-9 * rngw, k + 1e-6 * rngw, k - 1e-6 * rngw, mid]
    for _ in range(3):
        cols.append(lo + rngw * torch.rand(n, generator=g))
    x = torch.stack(cols, 1).clamp(lo, hi)
    if tails_B is not None:
        B = float(tails_B)
        Bt = torch.full((n,), B)
        t = torch.stack([_ulp(Bt, True), -_ulp(Bt, True), 1.5 * Bt, -1.5 * Bt, 100 * Bt, -100 * Bt], 1)
        x = torch.cat([x, t], 1)
    return x
