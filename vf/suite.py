"""Runs the repository's own test-suite as a workload under the contract plugin (vf.suite_plugin) and returns its record."""
import json
import os
import subprocess
import tempfile

from vf import env


def run(timeout=1500):
    os.makedirs(env.WORK, exist_ok=True)
    fd, out = tempfile.mkstemp(prefix="suite_", suffix=".json", dir=env.WORK)
    os.close(fd)
    os.unlink(out)
    e = dict(os.environ, PYTHONPATH=env.VERIF + os.pathsep + os.environ.get("PYTHONPATH", ""), VERIF_SUITE_OUT=out,
             OMP_NUM_THREADS="2", MKL_NUM_THREADS="2", PYTHONDONTWRITEBYTECODE="1", PYTHONWARNINGS="ignore")
    try:
        p = subprocess.run([env.PY, "-m", "pytest", "-q", "--no-header", "-p", "no:cacheprovider", "-p", "vf.suite_plugin", "tests"],
                           cwd=env.REPO, env=e, stdout=subprocess.PIPE, stderr=subprocess.STDOUT, text=True, timeout=timeout)
        tail = p.stdout[-400:]
    except subprocess.TimeoutExpired:
        return None, "pytest timed out"
    try:
        with open(out) as f:
            rec = json.load(f)
    except (OSError, ValueError):
        return None, "no record written: " + tail
    finally:
        try:
            os.unlink(out)
        except OSError:
            pass
    rec["tail"] = tail
    return rec, None
