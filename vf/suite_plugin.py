"""pytest plugin (-p vf.suite_plugin): the repository's own tests as a workload for generic call contracts.

Every forward / inverse of an nflows Transform class and every log_prob / sample / sample_and_log_prob of an nflows
Distribution class executed by the tests is wrapped (class level, nflows classes only).  The wrappers never raise and never
change results; they record
  * argument immutability: every tensor argument has the same bit pattern after the call (C13),
  * evaluation-mode purity: parameters and buffers of the called module are unchanged when it is not in training mode (C13),
  * shape contracts: (outputs, logabsdet) with logabsdet of shape [batch]; log_prob -> [rows]; sample -> [n, ...] or
    [rows, n, ...]; sample_and_log_prob the same plus [n] / [rows, n] (C18),
into the JSON file named by VERIF_SUITE_OUT (written at session end)."""
import json
import os

import torch

STATE = {"calls": 0, "arg_checks": 0, "state_checks": 0, "shape_checks": 0, "violations": [], "classes": {}}


def _bits_equal(a, b):
    if a.shape != b.shape or a.dtype != b.dtype:
        return False
    if a.numel() == 0:
        return True
    if a.is_floating_point():
        it = {torch.float64: torch.int64, torch.float32: torch.int32, torch.float16: torch.int16}.get(a.dtype)
        if it is not None:
            return bool(torch.equal(a.contiguous().view(it), b.contiguous().view(it)))
    return bool(torch.equal(a, b))


def _viol(kind, cls, method, **detail):
    if len(STATE["violations"]) < 200:
        STATE["violations"].append(dict(kind=kind, cls=cls, method=method, test=os.environ.get("PYTEST_CURRENT_TEST", ""), **detail))


def _wrap(cls, name, role):
    orig = cls.__dict__[name]
    if getattr(orig, "_vf_wrapped", False) or not callable(orig):
        return
    cname = cls.__module__ + "." + cls.__name__

    def wrapper(self, *a, **k):
        tens = [("arg%d" % i, x) for i, x in enumerate(a) if isinstance(x, torch.Tensor)]
        tens += [(kk, x) for kk, x in k.items() if isinstance(x, torch.Tensor)]
        snaps = [(key, x, x.detach().clone()) for key, x in tens]
        st = None
        if isinstance(self, torch.nn.Module) and not self.training:
            try:
                st = [(n, p, p.detach().clone()) for n, p in list(self.named_parameters()) + list(self.named_buffers())]
            except Exception:
                st = None
        out = orig(self, *a, **k)
        try:
            STATE["calls"] += 1
            STATE["classes"][cname + "." + name] = STATE["classes"].get(cname + "." + name, 0) + 1
            for key, x, old in snaps:
                STATE["arg_checks"] += 1
                if not _bits_equal(x.detach(), old):
                    _viol("argument_mutated", cname, name, argument=key, shape=list(x.shape))
            if st is not None:
                STATE["state_checks"] += 1
                ch = [n for n, p, old in st if not _bits_equal(p.detach(), old)]
                if ch:
                    _viol("model_mutated_in_eval", cname, name, changed=ch[:5])
            first = a[0] if a else k.get("inputs", k.get("num_samples"))
            if role == "transform" and isinstance(first, torch.Tensor) and first.dim() >= 1:
                STATE["shape_checks"] += 1
                if not (isinstance(out, tuple) and len(out) == 2 and isinstance(out[1], torch.Tensor)
                        and tuple(out[1].shape) == (first.shape[0],)):
                    _viol("logabsdet_shape", cname, name, got=str(getattr(out[1], "shape", type(out))) if isinstance(out, tuple) and len(out) == 2 else str(type(out)),
                          batch=int(first.shape[0]))
            elif role == "log_prob" and isinstance(first, torch.Tensor):
                STATE["shape_checks"] += 1
                if not (isinstance(out, torch.Tensor) and tuple(out.shape) == (first.shape[0],)):
                    _viol("log_prob_shape", cname, name, got=str(getattr(out, "shape", type(out))), rows=int(first.shape[0]))
            elif role in ("sample", "salp") and isinstance(first, int):
                ctx = a[1] if len(a) > 1 else k.get("context")
                lead = (first,) if ctx is None else (int(ctx.shape[0]), first)
                STATE["shape_checks"] += 1
                smp = out if role == "sample" else (out[0] if isinstance(out, tuple) and len(out) == 2 else None)
                ok = isinstance(smp, torch.Tensor) and tuple(smp.shape[:len(lead)]) == lead
                if role == "salp":
                    ok = ok and isinstance(out[1], torch.Tensor) and tuple(out[1].shape) == lead
                if not ok:
                    _viol("sample_shape", cname, name, lead=list(lead), got=str(getattr(smp, "shape", type(smp))))
        except Exception as e:                                   # the monitor must never disturb the tests
            STATE.setdefault("monitor_errors", []).append(repr(e)[:200])
        return out
    wrapper._vf_wrapped = True
    wrapper.__name__ = getattr(orig, "__name__", name)
    wrapper.__doc__ = getattr(orig, "__doc__", None)
    setattr(cls, name, wrapper)


def _all_subclasses(c):
    out, todo = set(), [c]
    while todo:
        x = todo.pop()
        for s in x.__subclasses__():
            if s not in out:
                out.add(s)
                todo.append(s)
    return out


def pytest_configure(config):
    import nflows.transforms  # noqa: F401
    import nflows.distributions  # noqa: F401
    import nflows.flows  # noqa: F401
    import nflows.distributions.mixture  # noqa: F401
    from nflows.transforms.base import Transform
    from nflows.distributions.base import Distribution
    for cls in [Transform] + sorted(_all_subclasses(Transform), key=lambda c: c.__name__):
        if not cls.__module__.startswith("nflows."):
            continue
        for name in ("forward", "inverse"):
            if name in cls.__dict__:
                _wrap(cls, name, "transform")
    for cls in [Distribution] + sorted(_all_subclasses(Distribution), key=lambda c: c.__name__):
        if not cls.__module__.startswith("nflows."):
            continue
        for name, role in (("log_prob", "log_prob"), ("sample", "sample"), ("sample_and_log_prob", "salp")):
            if name in cls.__dict__:
                _wrap(cls, name, role)


def pytest_sessionfinish(session, exitstatus):
    out = os.environ.get("VERIF_SUITE_OUT")
    if out:
        STATE["exitstatus"] = int(exitstatus)
        with open(out, "w") as f:
            json.dump(STATE, f)
