"""Dev helper: summarise replay files of a property by (kind, mech)."""
import collections, glob, json, sys
pid = sys.argv[1]
by = collections.defaultdict(list)
for p in glob.glob("/verif/replays/%s/*.json" % pid):
    d = json.load(open(p))
    by[(d["violation"]["kind"], d["violation"]["mech"])].append(d)
for k, v in sorted(by.items(), key=lambda kv: -len(kv[1])):
    print(len(v), k)
    for d in v[:int(sys.argv[2]) if len(sys.argv) > 2 else 1]:
        print("    case:", json.dumps(d["case"])[:300])
        print("    detail:", json.dumps(d["violation"]["detail"])[:500])
