"""Shard worker: python -m vf.worker <check module> <cases.json> <out.jsonl>

Runs the cases of one shard sequentially, one JSON result line per case, flushed at once so
that a dying worker loses only the case it was in.  Every case runs under a SIGALRM watchdog
whose firing makes that case *inconclusive* (never a violation)."""
import importlib
import json
import os
import signal
import sys
import time
import traceback

sys.path.insert(0, os.path.dirname(os.path.dirname(os.path.abspath(__file__))))

from vf import env  # noqa: E402
from vf.result import R  # noqa: E402


class CaseTimeout(BaseException):
    pass


def _alarm(signum, frame):
    raise CaseTimeout()


def run_one(mod, case, timeout):
    import torch
    env.set_world(case.get("world", "f64"))
    torch.manual_seed(env.subseed("case", case))
    signal.signal(signal.SIGALRM, _alarm)
    signal.alarm(int(timeout))
    t0 = time.time()
    try:
        res = mod.run_case(case)
    except CaseTimeout:
        r = R(case)
        r.inconc("case watchdog fired after %ss" % timeout)
        res = r.done()
    except Exception:
        # An exception escaping run_case is a harness problem (library exceptions are caught
        # and judged inside the checks): inconclusive, with the trace for diagnosis.
        r = R(case)
        r.inconc("harness exception: " + traceback.format_exc()[-1500:])
        res = r.done()
    finally:
        signal.alarm(0)
    res["wall_s"] = round(time.time() - t0, 3)
    return res


def main():
    modname, inpath, outpath = sys.argv[1:4]
    env.ensure_deps()
    env.worker_init()
    mod = importlib.import_module("checks." + modname)
    with open(inpath) as f:
        job = json.load(f)
    linecov = None
    if job.get("linecov"):
        from vf import linecov as lc
        linecov = lc.start(job["linecov"])
    with open(outpath, "a") as out:
        for case in job["cases"]:
            res = run_one(mod, case, job.get("case_timeout", 120))
            out.write(json.dumps(res) + "\n")
            out.flush()
        if linecov is not None:
            from vf import linecov as lc
            out.write(json.dumps({"linecov": lc.stop(linecov)}) + "\n")
            out.flush()


if __name__ == "__main__":
    main()
