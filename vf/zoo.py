"""The zoo: every public Transform class with a configuration generator, typed domains,
parameter policies and in-domain input samplers.  Configurations are JSON-able dicts so a case
(and its replay) is fully described by (cfg, policy, seed).

Nothing here judges the library; it only builds objects and places inputs."""
import math

import numpy as np
import torch
from torch import nn
from torch.nn import functional as F

R_ = ("R",)


def box(lo, hi):
    return ("box", float(lo), float(hi))


def opn(lo, hi):
    return ("open", float(lo), float(hi))


POS = ("pos",)


def dom_contains(outer, inner):
    """inner subset-of outer (conservative)."""
    if outer[0] == "R":
        return True
    if inner[0] == "R":
        return False
    if outer[0] == "pos":
        return inner[0] == "pos" or (inner[0] in ("box", "open") and inner[1] > 0) or \
            (inner[0] == "open" and inner[1] >= 0)
    if inner[0] == "pos":
        return False
    lo, hi = outer[1], outer[2]
    if outer[0] == "box":
        return inner[1] >= lo and inner[2] <= hi
    # outer open
    if inner[0] == "open":
        return inner[1] >= lo and inner[2] <= hi
    return inner[1] > lo and inner[2] < hi


# ----------------------------------------------------------------------------- conditioner nets
ACT = {"relu": F.relu, "tanh": torch.tanh, "elu": F.elu, "sigmoid": torch.sigmoid}


class PlainNet(nn.Module):
    """A conditioner without `hidden_features`/`hidden_channels` attributes (the 'MLP-like' kind)."""

    def __init__(self, i, o, c=0, act="tanh", h=7):
        super().__init__()
        self.l1 = nn.Linear(i + c, h)
        self.l2 = nn.Linear(h, o)
        self.act = ACT[act]

    def forward(self, x, context=None):
        if context is not None:
            x = torch.cat([x, context], dim=1)
        return self.l2(self.act(self.l1(x)))


class BoundedNet(nn.Module):
    """A user-written conditioner that exposes `hidden_features` / `hidden_channels` (as the library's residual nets do) and bounds
    its outputs with a final tanh - an op whose backward needs its own output."""

    def __init__(self, i, o, c=0, h=6, image=False):
        super().__init__()
        self.hidden_features = h
        self.hidden_channels = h
        self.l1 = nn.Conv2d(i + c, h, kernel_size=1) if image else nn.Linear(i + c, h)
        self.l2 = nn.Conv2d(h, o, kernel_size=1) if image else nn.Linear(h, o)

    def forward(self, x, context=None):
        if context is not None:
            x = torch.cat([x, context], dim=1)
        return torch.tanh(self.l2(torch.tanh(self.l1(x))))


class PlainConvNet(nn.Module):
    def __init__(self, i, o, c=0, act="tanh", h=5):
        super().__init__()
        self.l1 = nn.Conv2d(i + c, h, kernel_size=3, padding=1)
        self.l2 = nn.Conv2d(h, o, kernel_size=1)
        self.act = ACT[act]

    def forward(self, x, context=None):
        if context is not None:
            x = torch.cat([x, context], dim=1)
        return self.l2(self.act(self.l1(x)))


def net_factory(cfg, image):
    from nflows.nn import nets
    kind = cfg.get("net", "resnet")
    act = cfg.get("act", "relu")
    c = cfg.get("ctx", 0)
    hid = cfg.get("hidden", 8)
    nb = cfg.get("blocks", 1)
    dp = cfg.get("dropout", 0.0)
    bn = cfg.get("net_bn", False)

    def make(i, o):
        if kind == "bounded":
            return BoundedNet(i, o, c, image=image)
        if image:
            if kind == "plain":
                return PlainConvNet(i, o, c, act)
            return nets.ConvResidualNet(i, o, hidden_channels=hid, context_channels=(c or None), num_blocks=nb,
                                        activation=ACT[act], dropout_probability=dp, use_batch_norm=bn)
        if kind == "plain":
            return PlainNet(i, o, c, act)
        return nets.ResidualNet(i, o, hidden_features=hid, context_features=(c or None), num_blocks=nb,
                                activation=ACT[act], dropout_probability=dp, use_batch_norm=bn)
    return make


# ----------------------------------------------------------------------------- families
FAM = {}


class Fam:
    name = None
    invertible = True

    def sample_cfg(self, rng, tier):
        raise NotImplementedError

    def must(self):
        return []

    def build(self, cfg):
        raise NotImplementedError

    def meta(self, cfg):
        """dict(shape, ctx_shape, dom_in, dom_out, special (list of floats), tags (set))"""
        raise NotImplementedError


def reg(cls):
    FAM[cls.name] = cls()
    return cls


_WIDE = False      # set by configs() while it draws the additional *wide* configurations (their own random stream)


def _shape2d(rng, lo=1, hi=5):
    if _WIDE:
        return [int(rng.choice([7, 9, 12, 17]))]
    return [int(rng.integers(lo, hi + 1))]


def _shape_img(rng, cmin=1, cmax=4):
    if _WIDE:
        return [int(rng.choice([5, 6, 8])), int(rng.integers(1, 4)), int(rng.integers(1, 3))]
    return [int(rng.integers(cmin, cmax + 1)), int(rng.integers(1, 4)), int(rng.integers(1, 4))]


def _anyshape(rng):
    return _shape2d(rng) if rng.random() < 0.6 else _shape_img(rng)


def _meta(shape, dom_in=R_, dom_out=R_, ctx_shape=None, special=(), tags=(), edges=()):
    """edges: [(value, inward direction +1/-1)] - exact points where the implementation clamps or switches branch
    (box end-points, +-tail_bound): autograd's sub-gradient convention there is an artefact, so reference
    derivatives are taken a hair inside."""
    return {"shape": list(shape), "ctx_shape": ctx_shape, "dom_in": dom_in, "dom_out": dom_out,
            "special": list(special), "tags": set(tags), "edges": [list(e) for e in edges]}


# ---- simple elementwise
class _Simple(Fam):
    def sample_cfg(self, rng, tier):
        return {"fam": self.name, "shape": _anyshape(rng)}

    def must(self):
        return [{"fam": self.name, "shape": [1]}, {"fam": self.name, "shape": [3]},
                {"fam": self.name, "shape": [2, 2, 3]}]


@reg
class Exp(_Simple):
    name = "exp"

    def build(self, cfg):
        from nflows import transforms as T
        return T.Exp()

    def meta(self, cfg):
        return _meta(cfg["shape"], ("Rb", 12.0), POS, special=[0.0])


@reg
class Tanh(_Simple):
    name = "tanh"

    def build(self, cfg):
        from nflows import transforms as T
        return T.Tanh()

    def meta(self, cfg):
        return _meta(cfg["shape"], ("Rb", 6.0), opn(-1, 1), special=[0.0])


@reg
class LogTanh(Fam):
    name = "logtanh"

    def sample_cfg(self, rng, tier):
        return {"fam": self.name, "shape": _anyshape(rng), "cut": float(rng.choice([0.5, 1.0, 2.0, 3.5, 8.0]))}

    def must(self):
        # cut points of 8 and 10: the tanh branch reaches inputs where 1 - tanh(x)^2 is far below the float32 epsilon
        return [{"fam": self.name, "shape": [3], "cut": 1.0}, {"fam": self.name, "shape": [2, 2, 2], "cut": 0.5},
                {"fam": self.name, "shape": [2], "cut": 10.0}, {"fam": self.name, "shape": [4], "cut": 8.0}]

    def build(self, cfg):
        from nflows import transforms as T
        return T.LogTanh(cut_point=cfg["cut"])

    def meta(self, cfg):
        c = cfg["cut"]
        # image of [-50, 50]: beyond the cut point the map only grows like alpha*log(beta*x), so its inverse explodes
        # exponentially; the usable output range is small
        alpha = (1 - math.tanh(math.tanh(c))) / c
        ymax = math.tanh(c) + alpha * math.log(50.0 / c)
        return _meta(cfg["shape"], ("Rb", 50.0), ("Rb", ymax),
                     special=[0.0, c, -c, c * (1 + 1e-9), -c * (1 + 1e-9), 10 * c, -10 * c, 0.8 * c, -0.9 * c, 0.95 * c, -0.99 * c],
                     tags=["kink"])


@reg
class LeakyReLU(Fam):
    name = "leakyrelu"

    def sample_cfg(self, rng, tier):
        return {"fam": self.name, "shape": _anyshape(rng), "slope": float(rng.choice([0.01, 0.3, 2.0, 2.5]))}

    def must(self):
        # slopes above one are legal (the constructor asks for a positive slope only)
        return [{"fam": self.name, "shape": [3], "slope": 0.01}, {"fam": self.name, "shape": [2, 2, 2], "slope": 0.3},
                {"fam": self.name, "shape": [2], "slope": 2.5}]

    def build(self, cfg):
        from nflows import transforms as T
        return T.LeakyReLU(negative_slope=cfg["slope"])

    def meta(self, cfg):
        return _meta(cfg["shape"], R_, R_, special=[1e-3, -1e-3, 5.0, -5.0], tags=["kink"])


@reg
class Sigmoid(Fam):
    name = "sigmoid"

    def sample_cfg(self, rng, tier):
        return {"fam": self.name, "shape": _anyshape(rng), "temp": float(rng.choice([0.5, 1.0, 3.0])),
                "learn": bool(rng.random() < 0.5)}

    def must(self):
        return [{"fam": self.name, "shape": [3], "temp": 1.0, "learn": False},
                {"fam": self.name, "shape": [2, 2, 2], "temp": 3.0, "learn": True}]

    def build(self, cfg):
        from nflows import transforms as T
        return T.Sigmoid(temperature=cfg["temp"], learn_temperature=cfg["learn"])

    def meta(self, cfg):
        # |T x| <= 12 keeps sigmoid inside [eps, 1-eps] (the declared clamp of the inverse)
        return _meta(cfg["shape"], ("Rb", 12.0 / cfg["temp"]), opn(0, 1), special=[0.0], tags=["sigmoid_eps"])


@reg
class Logit(Fam):
    name = "logit"

    def sample_cfg(self, rng, tier):
        return {"fam": self.name, "shape": _anyshape(rng), "temp": float(rng.choice([0.5, 1.0, 3.0]))}

    def must(self):
        return [{"fam": self.name, "shape": [3], "temp": 1.0}]

    def build(self, cfg):
        from nflows import transforms as T
        return T.Logit(temperature=cfg["temp"])

    def meta(self, cfg):
        return _meta(cfg["shape"], opn(1e-5, 1 - 1e-5), R_, special=[0.5], tags=["sigmoid_eps"])


def _cauchy_args(rng, cfg):
    """the constructors accept location / scale / features (whatever the class does with them, the result must be a consistent
    bijection with the log-det of the map actually computed)"""
    if rng.random() < 0.5:
        cfg["loc"] = float(rng.choice([-2.0, 0.5, 3.0]))
        cfg["scale"] = float(rng.choice([0.3, 2.0, 5.0]))
    return cfg


@reg
class CauchyCDF(_Simple):
    name = "cauchycdf"

    def sample_cfg(self, rng, tier):
        return _cauchy_args(rng, {"fam": self.name, "shape": _anyshape(rng)})

    def must(self):
        return super().must() + [{"fam": self.name, "shape": [2], "loc": 3.0, "scale": 5.0}]

    def build(self, cfg):
        from nflows import transforms as T
        from nflows.transforms.nonlinearities import CauchyCDF as C
        if "loc" in cfg:
            return C(location=cfg["loc"], scale=cfg["scale"], features=cfg["shape"][0])
        return C()

    def meta(self, cfg):
        return _meta(cfg["shape"], ("Rb", 30.0), opn(0, 1), special=[0.0])


@reg
class CauchyCDFInverse(_Simple):
    name = "cauchycdfinv"

    def sample_cfg(self, rng, tier):
        return _cauchy_args(rng, {"fam": self.name, "shape": _anyshape(rng)})

    def must(self):
        return super().must() + [{"fam": self.name, "shape": [2], "loc": -2.0, "scale": 0.3}]

    def build(self, cfg):
        from nflows.transforms.nonlinearities import CauchyCDFInverse as C
        if "loc" in cfg:
            return C(location=cfg["loc"], scale=cfg["scale"], features=cfg["shape"][0])
        return C()

    def meta(self, cfg):
        return _meta(cfg["shape"], opn(0.01, 0.99), R_, special=[0.5])


@reg
class GLU(Fam):
    name = "glu"

    def sample_cfg(self, rng, tier):
        return {"fam": self.name, "shape": _shape2d(rng, 1, 4)}

    def must(self):
        return [{"fam": self.name, "shape": [1]}, {"fam": self.name, "shape": [3]}]

    def build(self, cfg):
        from nflows import transforms as T
        return T.GatedLinearUnit()

    def meta(self, cfg):
        return _meta(cfg["shape"], R_, R_, ctx_shape=[1], tags=["needs_ctx"])


@reg
class Identity(_Simple):
    name = "identity"

    def build(self, cfg):
        from nflows import transforms as T
        return T.IdentityTransform()

    def meta(self, cfg):
        return _meta(cfg["shape"], tags=["aliases_input"])


@reg
class PointwiseAffine(Fam):
    name = "pointwise_affine"

    def sample_cfg(self, rng, tier):
        shape = _anyshape(rng)
        kind = str(rng.choice(["scalar", "full", "bcast", "lead1", "lead1_full"]))
        return {"fam": self.name, "shape": shape, "kind": kind, "pseed": int(rng.integers(1 << 30)),
                "deprecated": bool(rng.random() < 0.2)}

    def must(self):
        return [{"fam": self.name, "shape": [3], "kind": "scalar", "pseed": 1, "deprecated": False},
                {"fam": self.name, "shape": [3], "kind": "full", "pseed": 2, "deprecated": True},
                {"fam": self.name, "shape": [2, 2, 3], "kind": "bcast", "pseed": 3, "deprecated": False},
                {"fam": self.name, "shape": [2, 2, 3], "kind": "full", "pseed": 4, "deprecated": False},
                # shift / scale written with a leading singleton batch axis, e.g. (1, C, 1, 1) against [N, C, H, W]
                {"fam": self.name, "shape": [3, 2, 2], "kind": "lead1", "pseed": 5, "deprecated": False},
                {"fam": self.name, "shape": [4], "kind": "lead1", "pseed": 6, "deprecated": False},
                {"fam": self.name, "shape": [2, 3], "kind": "lead1_full", "pseed": 7, "deprecated": False},
                # python integers as constructor arguments (AffineScalarTransform(scale=2)): integer buffers, which .double() leaves alone
                {"fam": self.name, "shape": [3], "kind": "int_scalar", "pseed": 8, "deprecated": True},
                {"fam": self.name, "shape": [2, 2, 2], "kind": "int_scalar", "pseed": 9, "deprecated": False}]

    def _params(self, cfg):
        g = np.random.default_rng(cfg["pseed"])
        shape = cfg["shape"]
        if cfg["kind"] in ("scalar", "int_scalar"):
            sshape = ()
        elif cfg["kind"] == "full":
            sshape = tuple(shape)
        elif cfg["kind"] == "lead1_full":
            sshape = (1,) + tuple(shape)
        elif cfg["kind"] == "lead1":
            sshape = (1, shape[0]) + (1,) * (len(shape) - 1)
        else:
            sshape = (shape[0],) + (1,) * (len(shape) - 1)
        scale = np.exp(g.standard_normal(sshape) * 0.7) * g.choice([-1.0, 1.0], size=sshape)
        shift = g.standard_normal(sshape) * 2
        return torch.tensor(shift, dtype=torch.get_default_dtype()), torch.tensor(scale, dtype=torch.get_default_dtype())

    def build(self, cfg):
        from nflows import transforms as T
        shift, scale = self._params(cfg)
        if cfg["kind"] == "scalar":
            shift, scale = float(shift), float(scale)
        if cfg["kind"] == "int_scalar":
            shift, scale = int(cfg["pseed"] % 3) - 1, [2, -3, 5][cfg["pseed"] % 3]
        cls = T.AffineTransform if cfg.get("deprecated") else T.PointwiseAffineTransform
        return cls(shift=shift, scale=scale)

    def meta(self, cfg):
        return _meta(cfg["shape"])


@reg
class Perm(Fam):
    name = "permutation"

    def sample_cfg(self, rng, tier):
        shape = _anyshape(rng)
        dim = int(rng.integers(1, len(shape) + 1))
        return {"fam": self.name, "shape": shape, "dim": dim, "kind": str(rng.choice(["given", "random", "reverse"])),
                "pseed": int(rng.integers(1 << 30))}

    def must(self):
        return [{"fam": self.name, "shape": [4], "dim": 1, "kind": "reverse", "pseed": 0},
                {"fam": self.name, "shape": [5], "dim": 1, "kind": "random", "pseed": 1},
                {"fam": self.name, "shape": [3, 2, 3], "dim": 3, "kind": "given", "pseed": 2},
                {"fam": self.name, "shape": [3, 3, 2], "dim": 2, "kind": "random", "pseed": 3}]

    def build(self, cfg):
        from nflows import transforms as T
        n = cfg["shape"][cfg["dim"] - 1]
        if cfg["kind"] == "reverse":
            return T.ReversePermutation(n, dim=cfg["dim"])
        if cfg["kind"] == "random":
            return T.RandomPermutation(n, dim=cfg["dim"])
        g = np.random.default_rng(cfg["pseed"])
        return T.Permutation(torch.tensor(g.permutation(n)), dim=cfg["dim"])

    def meta(self, cfg):
        return _meta(cfg["shape"])


class _Linear(Fam):
    def sample_cfg(self, rng, tier):
        return {"fam": self.name, "shape": _shape2d(rng, 1, 5), "cache": bool(rng.random() < 0.5),
                **self.extra(rng)}

    def extra(self, rng):
        return {}

    def meta(self, cfg):
        return _meta(cfg["shape"], tags=["linear"])


@reg
class Naive(_Linear):
    name = "naive_linear"

    def extra(self, rng):
        return {"orth": bool(rng.random() < 0.5)}

    def must(self):
        return [{"fam": self.name, "shape": [1], "cache": False, "orth": True},
                {"fam": self.name, "shape": [4], "cache": True, "orth": False}]

    def build(self, cfg):
        from nflows import transforms as T
        return T.NaiveLinear(cfg["shape"][0], orthogonal_initialization=cfg["orth"], using_cache=cfg["cache"])


@reg
class LU(_Linear):
    name = "lu"

    def extra(self, rng):
        return {"idinit": bool(rng.random() < 0.5)}

    def must(self):
        return [{"fam": self.name, "shape": [1], "cache": False, "idinit": True},
                {"fam": self.name, "shape": [4], "cache": True, "idinit": False}]

    def build(self, cfg):
        from nflows import transforms as T
        return T.LULinear(cfg["shape"][0], using_cache=cfg["cache"], identity_init=cfg["idinit"])


@reg
class QR(_Linear):
    name = "qr"

    def extra(self, rng):
        return {"nh": int(rng.integers(1, 7))}

    def must(self):
        return [{"fam": self.name, "shape": [1], "cache": False, "nh": 1},
                {"fam": self.name, "shape": [4], "cache": True, "nh": 3},
                {"fam": self.name, "shape": [3], "cache": False, "nh": 4}]

    def build(self, cfg):
        from nflows import transforms as T
        return T.QRLinear(cfg["shape"][0], num_householder=cfg["nh"], using_cache=cfg["cache"])


@reg
class SVD(_Linear):
    name = "svd"

    def extra(self, rng):
        return {"nh": int(rng.choice([2, 4, 6])), "idinit": bool(rng.random() < 0.5)}

    def must(self):
        return [{"fam": self.name, "shape": [1], "cache": False, "nh": 2, "idinit": True},
                {"fam": self.name, "shape": [4], "cache": True, "nh": 4, "idinit": False}]

    def build(self, cfg):
        from nflows import transforms as T
        return T.SVDLinear(cfg["shape"][0], num_householder=cfg["nh"], using_cache=cfg["cache"],
                           identity_init=cfg["idinit"])


@reg
class Householder(Fam):
    name = "householder"

    def sample_cfg(self, rng, tier):
        return {"fam": self.name, "shape": _shape2d(rng, 1, 5), "nh": int(rng.integers(1, 7))}

    def must(self):
        return [{"fam": self.name, "shape": [3], "nh": 1}, {"fam": self.name, "shape": [3], "nh": 4},
                {"fam": self.name, "shape": [4], "nh": 5}]

    def build(self, cfg):
        from nflows import transforms as T
        return T.HouseholderSequence(cfg["shape"][0], cfg["nh"])

    def meta(self, cfg):
        return _meta(cfg["shape"], tags=["linear"])


@reg
class Conv1x1(Fam):
    name = "conv1x1"

    def sample_cfg(self, rng, tier):
        return {"fam": self.name, "shape": _shape_img(rng), "cache": bool(rng.random() < 0.5),
                "idinit": bool(rng.random() < 0.5)}

    def must(self):
        return [{"fam": self.name, "shape": [3, 2, 2], "cache": False, "idinit": True},
                {"fam": self.name, "shape": [2, 1, 3], "cache": True, "idinit": False}]

    def build(self, cfg):
        from nflows import transforms as T
        return T.OneByOneConvolution(cfg["shape"][0], using_cache=cfg["cache"], identity_init=cfg["idinit"])

    def meta(self, cfg):
        return _meta(cfg["shape"], tags=["linear"])


@reg
class BatchNormT(Fam):
    name = "batchnorm"

    def sample_cfg(self, rng, tier):
        return {"fam": self.name, "shape": _shape2d(rng, 1, 5), "momentum": float(rng.choice([0.1, 0.5])),
                "eps": float(rng.choice([1e-5, 1e-3])), "affine": bool(rng.random() < 0.7)}

    def must(self):
        # affine=False is a constructor-accepted configuration (whatever the layer does with the flag, outputs and log-det agree)
        return [{"fam": self.name, "shape": [3], "momentum": 0.1, "eps": 1e-5, "affine": True},
                {"fam": self.name, "shape": [2], "momentum": 0.1, "eps": 1e-5, "affine": False}]

    def build(self, cfg):
        from nflows import transforms as T
        return T.BatchNorm(cfg["shape"][0], eps=cfg["eps"], momentum=cfg["momentum"], affine=cfg.get("affine", True))

    def meta(self, cfg):
        return _meta(cfg["shape"], tags=["batch_coupled_train", "stats"])


@reg
class ActNormT(Fam):
    name = "actnorm"

    def sample_cfg(self, rng, tier):
        return {"fam": self.name, "shape": _anyshape(rng)}

    def must(self):
        return [{"fam": self.name, "shape": [3]}, {"fam": self.name, "shape": [2, 2, 3]}]

    def build(self, cfg):
        from nflows import transforms as T
        return T.ActNorm(cfg["shape"][0])

    def meta(self, cfg):
        return _meta(cfg["shape"], tags=["data_init"])


@reg
class Squeeze(Fam):
    name = "squeeze"

    def sample_cfg(self, rng, tier):
        f = int(rng.choice([2, 2, 3]))
        return {"fam": self.name, "factor": f, "shape": [int(rng.integers(1, 4)), f * int(rng.integers(1, 3)),
                                                         f * int(rng.integers(1, 3))]}

    def must(self):
        return [{"fam": self.name, "factor": 2, "shape": [1, 2, 2]}, {"fam": self.name, "factor": 2, "shape": [3, 4, 2]},
                {"fam": self.name, "factor": 3, "shape": [2, 3, 6]}]

    def build(self, cfg):
        from nflows import transforms as T
        return T.SqueezeTransform(factor=cfg["factor"])

    def meta(self, cfg):
        return _meta(cfg["shape"], tags=["reshapes"])


# ---- piecewise CDFs (unconditional splines)
def _spline_dom(tails, B):
    if tails is None:
        return box(0, 1), box(0, 1), [0.0, 1.0, 1e-9, 1 - 1e-9, 0.5]
    return R_, R_, [B, -B, B * (1 - 1e-9), -B * (1 - 1e-9), B * (1 + 1e-9), -B * (1 + 1e-9), 0.0, 3 * B + 1, -3 * B - 1]


def _spline_edges(tails, B):
    return [(0.0, 1), (1.0, -1)] if tails is None else [(-B, 1), (B, -1)]


class _CDF(Fam):
    kind = None
    minbins_tails = 1

    def sample_cfg(self, rng, tier):
        tails = None if rng.random() < 0.5 else "linear"
        lo = self.minbins_tails if tails else 1
        c = {"fam": self.name, "shape": _anyshape(rng), "bins": int(rng.integers(lo, 9)), "tails": tails,
             "B": float(rng.choice([1.0, 2.5, 10.0]))}
        if self.kind != "linear" and rng.random() < 0.4:
            # non-default (and unequal) bin floors
            c["minw"] = float(rng.choice([1e-3, 0.02, 0.05]))
            c["minh"] = float(rng.choice([1e-3, 0.01, 0.04]))
        return c

    def must(self):
        return [{"fam": self.name, "shape": [2], "bins": max(1, self.minbins_tails), "tails": "linear", "B": 1.0},
                {"fam": self.name, "shape": [3], "bins": 5, "tails": None, "B": 1.0},
                {"fam": self.name, "shape": [1], "bins": 1, "tails": None, "B": 1.0},
                {"fam": self.name, "shape": [2, 2, 2], "bins": 4, "tails": "linear", "B": 2.5}]

    def build(self, cfg):
        from nflows import transforms as T
        cls = {"linear": T.PiecewiseLinearCDF, "quadratic": T.PiecewiseQuadraticCDF, "cubic": T.PiecewiseCubicCDF,
               "rq": T.PiecewiseRationalQuadraticCDF}[self.kind]
        kw = dict(shape=cfg["shape"], num_bins=cfg["bins"], tails=cfg["tails"], tail_bound=cfg["B"])
        if self.kind == "rq" and cfg.get("idinit"):
            kw["identity_init"] = True
        if self.kind == "rq" and cfg.get("minder"):
            kw["min_derivative"] = cfg["minder"]
        if self.kind != "linear":
            if cfg.get("minw"):
                kw["min_bin_width"] = cfg["minw"]
            if cfg.get("minh"):
                kw["min_bin_height"] = cfg["minh"]
        return cls(**kw)

    def meta(self, cfg):
        di, do, sp = _spline_dom(cfg["tails"], cfg["B"])
        return _meta(cfg["shape"], di, do, special=sp, tags=["spline", "spline_" + self.kind] +
                     (["kink"] if self.kind == "linear" or cfg["tails"] else []),
                     edges=_spline_edges(cfg["tails"], cfg["B"]))


@reg
class CDFLinear(_CDF):
    name = "cdf_linear"
    kind = "linear"


@reg
class CDFQuadratic(_CDF):
    name = "cdf_quadratic"
    kind = "quadratic"
    minbins_tails = 1


@reg
class CDFCubic(_CDF):
    name = "cdf_cubic"
    kind = "cubic"


@reg
class CDFRQ(_CDF):
    name = "cdf_rq"
    kind = "rq"

    def sample_cfg(self, rng, tier):
        c = super().sample_cfg(rng, tier)
        c["idinit"] = bool(rng.random() < 0.3)
        c["minder"] = float(rng.choice([0.0, 0.0, 1e-2, 0.1]))
        return c


# ---- couplings
def _mask(rng, D):
    while True:
        m = [float(rng.choice([-2.0, -1.0, 0.0, 0.5, 1.0, 3.0])) for _ in range(D)]
        if any(v > 0 for v in m) and any(v <= 0 for v in m):
            return m


class _Coupling(Fam):
    kind = None
    has_tails = True
    minbins_tails = 1

    def sample_cfg(self, rng, tier):
        image = bool(rng.random() < 0.35)
        shape = _shape_img(rng, 2, 4) if image else _shape2d(rng, 2, 5)
        cfg = {"fam": self.name, "shape": shape, "mask": _mask(rng, shape[0]),
               "ctx": int(rng.choice([0, 0, 2])), "net": str(rng.choice(["resnet", "resnet", "plain"])),
               "hidden": int(rng.choice([4, 8])), "blocks": int(rng.choice([1, 2]))}
        if self.has_tails:
            tails = None if rng.random() < 0.4 else "linear"
            cfg.update({"bins": int(rng.integers(self.minbins_tails if tails else 1, 7)), "tails": tails,
                        "B": float(rng.choice([1.0, 3.0])), "uncond": bool(rng.random() < 0.3)})
            if self.kind in ("quadratic", "cubic", "rq") and rng.random() < 0.4:
                cfg["minw"] = float(rng.choice([1e-3, 0.02, 0.05]))
                cfg["minh"] = float(rng.choice([1e-3, 0.01, 0.04]))
        self.extra(cfg, rng)
        # conditioner options of the library's residual nets (eval mode: running statistics / no dropout)
        if cfg["net"] == "resnet" and rng.random() < 0.2:
            cfg["net_bn"] = True
        if cfg["net"] == "resnet" and rng.random() < 0.15:
            cfg["dropout"] = 0.3
        return cfg

    def extra(self, cfg, rng):
        pass

    def must(self):
        base = {"fam": self.name, "ctx": 0, "net": "resnet", "hidden": 8, "blocks": 1}
        out = []
        for shape, mask, ctx, net in (([2], [1, 0], 0, "resnet"), ([3], [0, 1, -1], 2, "resnet"),
                                      ([4], [1, 0, 1, 0], 0, "plain"), ([2, 2, 2], [0, 1], 0, "resnet"),
                                      ([3, 2, 1], [1, 1, 0], 2, "plain")):
            c = dict(base, shape=shape, mask=[float(m) for m in mask], ctx=ctx, net=net)
            if self.has_tails:
                c.update({"bins": max(3, self.minbins_tails), "tails": "linear" if len(out) % 2 == 0 else None,
                          "B": 1.0 if len(out) < 2 else 3.0, "uncond": len(out) == 1})
            self.extra_must(c, len(out))
            out.append(c)
        return out

    def extra_must(self, c, i):
        pass

    def cls(self):
        from nflows import transforms as T
        return {"affine": T.AffineCouplingTransform, "additive": T.AdditiveCouplingTransform,
                "linear": T.PiecewiseLinearCouplingTransform, "quadratic": T.PiecewiseQuadraticCouplingTransform,
                "cubic": T.PiecewiseCubicCouplingTransform, "rq": T.PiecewiseRationalQuadraticCouplingTransform,
                "umnn": T.UMNNCouplingTransform}[self.kind]

    def build(self, cfg):
        image = len(cfg["shape"]) == 3
        kw = {}
        if self.has_tails:
            kw = dict(num_bins=cfg["bins"], tails=cfg["tails"], tail_bound=cfg["B"],
                      apply_unconditional_transform=cfg.get("uncond", False))
            if image and cfg.get("uncond"):
                kw["img_shape"] = cfg["shape"][1:]
            if self.kind == "rq" and cfg.get("minder"):
                kw["min_derivative"] = cfg["minder"]
            if self.kind in ("quadratic", "cubic", "rq"):
                if cfg.get("minw"):
                    kw["min_bin_width"] = cfg["minw"]
                if cfg.get("minh"):
                    kw["min_bin_height"] = cfg["minh"]
        if not self.has_tails:
            kw.update(_uncond_kw(cfg))
        return self.cls()(mask=cfg["mask"], transform_net_create_fn=net_factory(cfg, image), **kw)

    def meta(self, cfg):
        image = len(cfg["shape"]) == 3
        ctx_shape = None
        if cfg.get("ctx"):
            ctx_shape = [cfg["ctx"]] + (cfg["shape"][1:] if image else [])
        if self.has_tails:
            di, do, sp = _spline_dom(cfg["tails"], cfg["B"])
            tags = ["spline", "spline_" + self.kind, "coupling"] + (["kink"] if self.kind == "linear" or cfg["tails"] else [])
        else:
            di, do, sp, tags = R_, R_, [0.0], ["coupling"]
        if cfg.get("net_bn"):
            tags.append("batch_coupled_train")
        if cfg.get("dropout"):
            tags.append("dropout")
        if cfg.get("act", "relu") == "relu":
            tags.append("relu_net")
        return _meta(cfg["shape"], di, do, ctx_shape=ctx_shape, special=sp, tags=tags,
                     edges=_spline_edges(cfg["tails"], cfg["B"]) if self.has_tails else ())


def _uncond_affine(cfg, rng):
    """the generic `unconditional_transform` argument of the affine / additive couplings: an elementwise affine map of the identity
    features (its log-abs-det is a broadcast scalar)"""
    if rng.random() < 0.25:
        cfg["uncond"] = cfg["uncond_affine"] = True


def _uncond_kw(cfg):
    if not cfg.get("uncond_affine"):
        return {}
    from nflows import transforms as T
    return {"unconditional_transform": lambda features: T.PointwiseAffineTransform(shift=0.3, scale=1.7)}


@reg
class CAffine(_Coupling):
    name = "coupling_affine"
    kind = "affine"
    has_tails = False

    def extra(self, cfg, rng):
        cfg["scale_act"] = str(rng.choice(["default", "general"]))
        _uncond_affine(cfg, rng)

    def extra_must(self, c, i):
        c["scale_act"] = "default" if i % 2 == 0 else "general"
        if i == 1:
            c["uncond"] = c["uncond_affine"] = True

    def build(self, cfg):
        from nflows import transforms as T
        image = len(cfg["shape"]) == 3
        sa = T.AffineCouplingTransform.DEFAULT_SCALE_ACTIVATION if cfg.get("scale_act", "default") == "default" \
            else T.AffineCouplingTransform.GENERAL_SCALE_ACTIVATION
        return T.AffineCouplingTransform(mask=cfg["mask"], transform_net_create_fn=net_factory(cfg, image),
                                         scale_activation=sa, **_uncond_kw(cfg))

    def meta(self, cfg):
        m = super().meta(cfg)
        if cfg.get("scale_act") == "general":
            m["tags"].add("kink")  # clamp(0, 3)
        return m


@reg
class CAdditive(_Coupling):
    name = "coupling_additive"
    kind = "additive"
    has_tails = False

    def extra(self, cfg, rng):
        _uncond_affine(cfg, rng)

    def extra_must(self, c, i):
        if i == 3:
            c["uncond"] = c["uncond_affine"] = True


@reg
class CLinear(_Coupling):
    name = "coupling_linear"
    kind = "linear"


@reg
class CQuadratic(_Coupling):
    name = "coupling_quadratic"
    kind = "quadratic"
    minbins_tails = 1


@reg
class CCubic(_Coupling):
    name = "coupling_cubic"
    kind = "cubic"


@reg
class CRQ(_Coupling):
    name = "coupling_rq"
    kind = "rq"

    def extra(self, cfg, rng):
        cfg["minder"] = float(rng.choice([0.0, 0.0, 1e-2, 0.1]))


@reg
class CUMNN(_Coupling):
    name = "coupling_umnn"
    kind = "umnn"
    has_tails = False

    def extra(self, cfg, rng):
        cfg.update({"cond": int(rng.choice([3, 5])), "steps": int(rng.choice([20, 30])),
                    "solver": str(rng.choice(["CC", "CCParallel"])), "uncond": False})

    def extra_must(self, c, i):
        c.update({"cond": 4, "steps": 20, "solver": "CCParallel" if i % 2 == 0 else "CC", "uncond": False})

    def build(self, cfg):
        from nflows import transforms as T
        image = len(cfg["shape"]) == 3
        return T.UMNNCouplingTransform(mask=cfg["mask"], transform_net_create_fn=net_factory(cfg, image),
                                       integrand_net_layers=[6, 6], cond_size=cfg["cond"], nb_steps=cfg["steps"],
                                       solver=cfg["solver"], apply_unconditional_transform=cfg.get("uncond", False))

    def meta(self, cfg):
        m = super().meta(cfg)
        m["tags"] |= {"umnn", "relu_net"}
        m["dom_in"] = ("Rb", 6.0)
        return m


# ---- masked autoregressive
class _AR(Fam):
    kind = None
    has_bins = True
    has_tails = False
    minbins_tails = 1

    def sample_cfg(self, rng, tier):
        cfg = {"fam": self.name, "shape": _shape2d(rng, 1, 4), "hidden": int(rng.choice([4, 8, 9])),
               "ctx": int(rng.choice([0, 0, 2])), "blocks": int(rng.choice([0, 1, 2])),
               "residual": bool(rng.random() < 0.5), "random_mask": False}
        if not cfg["residual"]:
            cfg["random_mask"] = bool(rng.random() < 0.4)
        if cfg["residual"]:
            cfg["hidden"] = max(cfg["hidden"], cfg["shape"][0])
        if self.has_bins:
            cfg["bins"] = int(rng.integers(1, 6))
        if self.has_tails:
            cfg["tails"] = None if rng.random() < 0.4 else "linear"
            cfg["B"] = float(rng.choice([1.0, 3.0]))
            if cfg["tails"]:
                cfg["bins"] = max(cfg["bins"], self.minbins_tails)
        if rng.random() < 0.2:
            cfg["net_bn"] = True
        if rng.random() < 0.15:
            cfg["dropout"] = 0.3
        return cfg

    def must(self):
        out = []
        for shape, ctx, res, blocks in (([1], 0, True, 1), ([3], 2, True, 2), ([4], 0, False, 1), ([2], 2, False, 0)):
            c = {"fam": self.name, "shape": shape, "hidden": 8, "ctx": ctx, "blocks": blocks, "residual": res,
                 "random_mask": (not res) and shape == [4]}
            if self.has_bins:
                c["bins"] = 4
            if self.has_tails:
                c["tails"] = "linear" if len(out) % 2 == 0 else None
                c["B"] = 1.0 if len(out) < 2 else 3.0
            out.append(c)
        return out

    def common(self, cfg):
        return dict(features=cfg["shape"][0], hidden_features=cfg["hidden"], context_features=(cfg["ctx"] or None),
                    num_blocks=cfg["blocks"], use_residual_blocks=cfg["residual"], random_mask=cfg["random_mask"],
                    activation=ACT[cfg.get("act", "relu")], dropout_probability=cfg.get("dropout", 0.0),
                    use_batch_norm=cfg.get("net_bn", False))

    def build(self, cfg):
        from nflows import transforms as T
        kw = self.common(cfg)
        if self.kind == "affine":
            return T.MaskedAffineAutoregressiveTransform(**kw)
        if self.kind == "linear":
            return T.MaskedPiecewiseLinearAutoregressiveTransform(num_bins=cfg["bins"], **kw)
        if self.kind == "cubic":
            return T.MaskedPiecewiseCubicAutoregressiveTransform(num_bins=cfg["bins"], **kw)
        if self.kind == "quadratic":
            return T.MaskedPiecewiseQuadraticAutoregressiveTransform(num_bins=cfg["bins"], tails=cfg["tails"],
                                                                     tail_bound=cfg["B"], **kw)
        if self.kind == "rq":
            if cfg.get("minder"):
                kw["min_derivative"] = cfg["minder"]
            return T.MaskedPiecewiseRationalQuadraticAutoregressiveTransform(num_bins=cfg["bins"], tails=cfg["tails"],
                                                                             tail_bound=cfg["B"], **kw)
        if self.kind == "umnn":
            return T.MaskedUMNNAutoregressiveTransform(integrand_net_layers=[6, 6], cond_size=cfg.get("cond", 4),
                                                       nb_steps=cfg.get("steps", 20), solver=cfg.get("solver", "CCParallel"), **kw)

    def meta(self, cfg):
        tags = ["ar"]
        if self.kind in ("linear", "cubic"):
            di, do, sp = _spline_dom(None, 1.0)
            tags += ["spline", "spline_" + self.kind]
        elif self.has_tails:
            di, do, sp = _spline_dom(cfg["tails"], cfg["B"])
            tags += ["spline", "spline_" + self.kind]
        else:
            di, do, sp = R_, R_, [0.0]
        if self.kind == "linear" or (self.has_tails and cfg.get("tails")):
            tags.append("kink")
        if self.kind == "umnn":
            tags.append("umnn")
            di = ("Rb", 6.0)
        if cfg.get("net_bn"):
            tags.append("batch_coupled_train")
        if cfg.get("dropout"):
            tags.append("dropout")
        if cfg.get("act", "relu") == "relu":
            tags.append("relu_net")
        edges = ()
        if self.kind in ("linear", "cubic"):
            edges = _spline_edges(None, 1.0)
        elif self.has_tails:
            edges = _spline_edges(cfg["tails"], cfg["B"])
        return _meta(cfg["shape"], di, do, ctx_shape=[cfg["ctx"]] if cfg["ctx"] else None, special=sp, tags=tags,
                     edges=edges)


@reg
class ARAffine(_AR):
    name = "ar_affine"
    kind = "affine"
    has_bins = False


@reg
class ARLinear(_AR):
    name = "ar_linear"
    kind = "linear"


@reg
class ARQuadratic(_AR):
    name = "ar_quadratic"
    kind = "quadratic"
    has_tails = True
    minbins_tails = 1


@reg
class ARCubic(_AR):
    name = "ar_cubic"
    kind = "cubic"


@reg
class ARRQ(_AR):
    name = "ar_rq"
    kind = "rq"
    has_tails = True

    def sample_cfg(self, rng, tier):
        c = super().sample_cfg(rng, tier)
        c["minder"] = float(rng.choice([0.0, 0.0, 1e-2, 0.1]))
        return c


@reg
class ARUMNN(_AR):
    name = "ar_umnn"
    kind = "umnn"
    has_bins = False

    def sample_cfg(self, rng, tier):
        c = super().sample_cfg(rng, tier)
        c.update({"cond": int(rng.choice([3, 5])), "steps": int(rng.choice([20, 30])),
                  "solver": str(rng.choice(["CC", "CCParallel"]))})
        return c


# ---- wrappers
R_FAMS_2D = ["leakyrelu", "logtanh", "pointwise_affine", "permutation", "lu", "qr", "svd", "householder", "naive_linear",
             "actnorm", "batchnorm", "cdf_rq", "cdf_quadratic", "cdf_linear", "coupling_affine", "coupling_additive",
             "coupling_rq", "coupling_quadratic", "coupling_linear", "ar_affine", "ar_rq", "ar_quadratic", "identity"]


def sample_R_cfg(rng, tier, D, ctx=0, fams=None):
    """A random R^D -> R^D transform config (2-D inputs) with the given context width."""
    for _ in range(200):
        fam = str(rng.choice(fams or R_FAMS_2D))
        cfg = FAM[fam].sample_cfg(rng, tier)
        if len(cfg["shape"]) != 1:
            cfg["shape"] = [D]
        if fam.startswith("coupling") and D < 2:
            continue
        cfg["shape"] = [D]
        if "mask" in cfg:
            cfg["mask"] = _mask(rng, D)
        if fam == "permutation":
            cfg["dim"] = 1
        if "tails" in cfg:
            cfg["tails"] = "linear"
            cfg["bins"] = max(cfg.get("bins", 2), 2)
        if "residual" in cfg and cfg["residual"]:
            cfg["hidden"] = max(cfg["hidden"], D)
        if "ctx" in cfg:
            cfg["ctx"] = ctx
        if fam == "pointwise_affine" and cfg["kind"] == "bcast":
            cfg["kind"] = "full"
        return cfg
    raise RuntimeError("no config")


@reg
class Composite(Fam):
    name = "composite"

    def sample_cfg(self, rng, tier):
        D = int(rng.integers(1, 5))
        ctx = int(rng.choice([0, 0, 2]))
        n = int(rng.integers(1, 5))
        return {"fam": self.name, "shape": [D], "ctx": ctx,
                "parts": [sample_R_cfg(rng, tier, D, ctx) for _ in range(n)]}

    def must(self):
        return [{"fam": self.name, "shape": [3], "ctx": 0, "parts": [
            {"fam": "pointwise_affine", "shape": [3], "kind": "full", "pseed": 5, "deprecated": False},
            {"fam": "permutation", "shape": [3], "dim": 1, "kind": "given", "pseed": 7},
            {"fam": "leakyrelu", "shape": [3], "slope": 0.3},
            {"fam": "lu", "shape": [3], "cache": False, "idinit": False}]}]

    def build(self, cfg):
        from nflows import transforms as T
        return T.CompositeTransform([build(c) for c in cfg["parts"]])

    def meta(self, cfg):
        tags, special = set(["composite"]), []
        for c in cfg["parts"]:
            m = meta(c)
            tags |= (m["tags"] - {"aliases_input"})
            special += m["special"]
        if len(cfg["parts"]) == 1 and "aliases_input" in meta(cfg["parts"][0])["tags"]:
            tags.add("aliases_input")
        if all("aliases_input" in meta(c)["tags"] for c in cfg["parts"]):
            tags.add("aliases_input")
        first = meta(cfg["parts"][0])
        return _meta(cfg["shape"], first["dom_in"], meta(cfg["parts"][-1])["dom_out"],
                     ctx_shape=[cfg["ctx"]] if cfg["ctx"] else None, special=special, tags=tags,
                     edges=first["edges"])


@reg
class Inverse(Fam):
    name = "inverse"
    INNER = ["exp", "tanh", "sigmoid", "leakyrelu", "logtanh", "lu", "cdf_rq", "coupling_rq", "ar_affine",
             "pointwise_affine", "squeeze", "cauchycdf", "cdf_quadratic", "actnorm"]

    def sample_cfg(self, rng, tier):
        inner = FAM[str(rng.choice(self.INNER))].sample_cfg(rng, tier)
        return {"fam": self.name, "inner": inner}

    def must(self):
        return [{"fam": self.name, "inner": {"fam": "exp", "shape": [3]}},
                {"fam": self.name, "inner": {"fam": "lu", "shape": [3], "cache": False, "idinit": False}}]

    def build(self, cfg):
        from nflows import transforms as T
        return T.InverseTransform(build(cfg["inner"]))

    def meta(self, cfg):
        m = meta(cfg["inner"])
        shape = m["shape"]
        if cfg["inner"]["fam"] == "squeeze":
            f = cfg["inner"]["factor"]
            shape = [shape[0] * f * f, shape[1] // f, shape[2] // f]
        dom_in = m["dom_out"]
        # keep inverse inputs away from the open end-points
        if dom_in[0] == "open":
            w = dom_in[2] - dom_in[1]
            dom_in = opn(dom_in[1] + 1e-3 * w, dom_in[2] - 1e-3 * w)
        if dom_in[0] == "pos":
            dom_in = opn(1e-3, 50.0)
        if dom_in[0] == "Rb":
            specials_ok = dom_in[1]
        
        return {"shape": shape, "ctx_shape": m["ctx_shape"], "dom_in": dom_in, "dom_out": m["dom_in"],
                "special": [s for s in m["special"] if _in_dom(s, dom_in)], "tags": set(m["tags"]) | {"inverse_wrapper"},
                "edges": m["edges"] if m["dom_in"] == m["dom_out"] else []}


@reg
class CompositeCDF(Fam):
    name = "composite_cdf"

    def sample_cfg(self, rng, tier):
        shape = _shape2d(rng, 1, 4)
        return {"fam": self.name, "shape": shape, "squash": str(rng.choice(["sigmoid", "cauchycdf"])),
                "cdf": str(rng.choice(["cdf_rq", "cdf_quadratic", "cdf_linear", "cdf_cubic"])),
                "bins": int(rng.integers(1, 7))}

    def must(self):
        return [{"fam": self.name, "shape": [2], "squash": "sigmoid", "cdf": "cdf_rq", "bins": 4}]

    def build(self, cfg):
        from nflows import transforms as T
        sq = build({"fam": cfg["squash"], "shape": cfg["shape"], "temp": 1.0, "learn": False})
        cdf = build({"fam": cfg["cdf"], "shape": cfg["shape"], "bins": cfg["bins"], "tails": None, "B": 1.0})
        return T.CompositeCDFTransform(sq, cdf)

    def meta(self, cfg):
        tags = {"spline", "spline_" + cfg["cdf"][4:], "composite", "sigmoid_eps"}
        if cfg["cdf"] == "cdf_linear":
            tags.add("kink")
        return _meta(cfg["shape"], ("Rb", 8.0), R_, special=[0.0], tags=tags)


@reg
class SquashPair(Fam):
    """R^D -> (0,1)^D -> R^D: Sigmoid(T1) [optionally a bounded spline CDF in between] then Logit(T2)."""
    name = "squash_pair"

    def sample_cfg(self, rng, tier):
        return {"fam": self.name, "shape": _shape2d(rng, 1, 4), "t1": float(rng.choice([0.5, 1.0, 2.5])),
                "t2": float(rng.choice([0.5, 1.0, 2.0])), "cdf": str(rng.choice(["none", "cdf_rq", "cdf_quadratic"])),
                "bins": int(rng.integers(1, 6))}

    def must(self):
        return [{"fam": self.name, "shape": [2], "t1": 2.5, "t2": 0.5, "cdf": "none", "bins": 3},
                {"fam": self.name, "shape": [3], "t1": 0.5, "t2": 2.0, "cdf": "cdf_rq", "bins": 4}]

    def build(self, cfg):
        from nflows import transforms as T
        parts = [T.Sigmoid(temperature=cfg["t1"])]
        if cfg["cdf"] != "none":
            parts.append(build({"fam": cfg["cdf"], "shape": cfg["shape"], "bins": cfg["bins"], "tails": None, "B": 1.0}))
        parts.append(T.Logit(temperature=cfg["t2"]))
        return T.CompositeTransform(parts)

    def meta(self, cfg):
        return _meta(cfg["shape"], ("Rb", 8.0 / max(cfg["t1"], 0.5)), R_, special=[0.0], tags=["composite", "sigmoid_eps", "spline"])


@reg
class Multiscale(Fam):
    name = "multiscale"

    def sample_cfg(self, rng, tier):
        if rng.random() < 0.5:
            shape = [int(rng.integers(2, 9))]
            split_dim = 1
        else:
            shape = [int(rng.integers(2, 7)), int(rng.integers(1, 4)), int(rng.integers(1, 4))]
            split_dim = 1
        n = int(rng.integers(1, 4))
        return {"fam": self.name, "shape": shape, "split_dim": split_dim, "n": n, "pseed": int(rng.integers(1 << 30))}

    def must(self):
        return [{"fam": self.name, "shape": [5], "split_dim": 1, "n": 3, "pseed": 1},
                {"fam": self.name, "shape": [4, 2, 2], "split_dim": 1, "n": 2, "pseed": 2},
                {"fam": self.name, "shape": [7], "split_dim": 1, "n": 1, "pseed": 3}]

    def stages(self, cfg):
        """Stage shapes and per-stage transform configs (an ActNorm-free elementwise affine + LeakyReLU mix)."""
        shape = list(cfg["shape"])
        sd = cfg["split_dim"] - 1
        out = []
        g = np.random.default_rng(cfg["pseed"])
        for i in range(cfg["n"]):
            if shape[sd] < 2:
                break
            sub = {"fam": "composite", "shape": list(shape), "ctx": 0, "parts": [
                {"fam": "pointwise_affine", "shape": list(shape), "kind": "full", "pseed": int(g.integers(1 << 30)),
                 "deprecated": False},
                {"fam": "leakyrelu", "shape": list(shape), "slope": 0.5}]}
            if len(shape) == 1 and g.random() < 0.5:
                sub["parts"].append({"fam": "lu", "shape": list(shape), "cache": False, "idinit": False})
            out.append((list(shape), sub))
            shape = list(shape)
            shape[sd] = shape[sd] // 2
        return out

    def build(self, cfg):
        from nflows import transforms as T
        st = self.stages(cfg)
        ms = T.MultiscaleCompositeTransform(num_transforms=len(st), split_dim=cfg["split_dim"])
        for shape, sub in st:
            ms.add_transform(build(sub), tuple(shape))
        return ms

    def meta(self, cfg):
        return _meta(cfg["shape"], tags=["multiscale", "kink", "flattens"])


# ----------------------------------------------------------------------------- API
def build(cfg):
    return FAM[cfg["fam"]].build(cfg)


def meta(cfg):
    return FAM[cfg["fam"]].meta(cfg)


def _in_dom(v, dom):
    if dom[0] == "R":
        return True
    if dom[0] == "Rb":
        return abs(v) <= dom[1]
    if dom[0] == "pos":
        return v > 0
    if dom[0] == "box":
        return dom[1] <= v <= dom[2]
    return dom[1] < v < dom[2]


def configs(fams, tier, seed, n_random):
    """must-cover configs + n_random random draws per family (deterministic in seed)."""
    out = []
    for fam in fams:
        f = FAM[fam]
        out.extend(f.must())
        rng = np.random.default_rng([seed, abs(hash_str(fam)) % (1 << 31)])
        for _ in range(n_random):
            out.append(f.sample_cfg(rng, tier))
        # wide subjects (7-17 features, 5-8 channels) from a stream of their own, appended so that the configurations above
        # keep their seeds: degree / index / ordering arithmetic that only shows beyond a handful of features
        global _WIDE
        wrng = np.random.default_rng([seed, abs(hash_str(fam)) % (1 << 31), 7])
        _WIDE = True
        try:
            for _ in range(1 if tier == "quick" else max(2, n_random // 8)):
                try:
                    c = f.sample_cfg(wrng, tier)
                except Exception:
                    continue
                if int(np.prod(c.get("shape", [1]))) >= 7:
                    out.append(c)
        finally:
            _WIDE = False
    return out


def hash_str(s):
    h = 0
    for ch in s:
        h = (h * 131 + ord(ch)) & 0x7FFFFFFF
    return h


ALL_FAMS = list(FAM.keys())


# ----------------------------------------------------------------------------- parameter policies
POLICIES = ["fresh", "randn0.3", "randn1", "randn3", "zero", "extreme"]
_KEEP = ("q_vectors", "_weight")   # reflection vectors / NaiveLinear matrix: zero or huge values are singular points


def _is_final(name):
    return name.endswith("final_layer") or name.endswith("l2") or name.endswith("_output_layer")


def apply_policy(model, policy, seed):
    """Overwrites parameters (and statistics buffers) according to the policy.

    randn<s>: *transformer* parameters get scale s.  Direct parameters (CDF transforms, linear family, norms)
    are randn*s; conditioner networks keep O(1) hidden activations (weights randn/sqrt(fan_in)) and get scale s
    on their final layer, so the spline/affine parameters they emit have magnitude ~s instead of s**depth.
    zero: everything exactly 0 (degenerate but legal).  extreme: randn*0.5, then one direct parameter tensor or
    final-layer bias pushed to +-15 (strongly non-uniform bins / saturated floors)."""
    from nflows.transforms.normalization import BatchNorm, ActNorm
    g = torch.Generator().manual_seed(int(seed))

    def rn(p, s=1.0):
        return torch.randn(p.shape, generator=g) * s

    with torch.no_grad():
        for m in model.modules():
            if isinstance(m, BatchNorm):
                m.running_mean.copy_(rn(m.running_mean))
                m.running_var.copy_(torch.rand(m.running_var.shape, generator=g) * 2 + 0.1)
            if isinstance(m, (nn.BatchNorm1d, nn.BatchNorm2d)):
                m.running_mean.copy_(rn(m.running_mean, 0.3))
                m.running_var.copy_(torch.rand(m.running_var.shape, generator=g) + 0.5)
        if policy == "fresh":
            return model
        for m in model.modules():
            if isinstance(m, ActNorm):
                m.initialized.fill_(True)   # keep the policy's parameters instead of data-dependent init
        if policy == "zero":
            s, base = 0.0, 0.0
        elif policy == "extreme":
            s, base = 0.5, 0.5
        else:
            s = float(policy[5:])
            base = 1.0
        cands = []
        for mname, m in model.named_modules():
            for pname, p in m.named_parameters(recurse=False):
                full = (mname + "." if mname else "") + pname
                if pname == "temperature":
                    # a learned temperature differs from the constructor's value after training (stays positive; only
                    # lowered, so that inputs placed for the configured temperature stay inside the eps clamp band)
                    if policy != "zero":
                        p.mul_(float(torch.exp(-0.7 * torch.rand((), generator=g))))
                    continue
                if pname in _KEEP:
                    if policy != "zero" and pname == "q_vectors":
                        # a reflection depends on the direction of its vector only: rows of very different length are as legal
                        # as unit vectors (what an optimiser leaves behind is not normalised)
                        sc = torch.tensor([1.0, 1.0, 0.01, 0.003, 30.0])[torch.randint(5, (p.shape[0],), generator=g)]
                        p.copy_((rn(p) + 0.1 * torch.sign(rn(p))) * sc.reshape(-1, *([1] * (p.dim() - 1))))
                    elif policy != "zero":
                        p.copy_(rn(p, 0.5) + torch.eye(p.shape[0]))
                    continue
                if isinstance(m, (nn.Linear, nn.Conv2d)):
                    fan_in = p[0].numel() if p.dim() >= 2 else 1
                    final = _is_final(mname)
                    if pname == "weight":
                        # final layer: the spread of the emitted transformer parameters comes from the bias (scale s);
                        # the input-dependent part stays O(1) so that logits do not scale with |inputs| * s
                        p.copy_(rn(p, (min(s, 1.0) if final else min(base, 1.0) if s else 0.0) / max(fan_in, 1) ** 0.5))
                    else:
                        p.copy_(rn(p, s if final else min(s, 0.5)))
                        if final:
                            cands.append((full, p))
                elif isinstance(m, (nn.BatchNorm1d, nn.BatchNorm2d)):
                    p.copy_((1.0 if pname == "weight" else 0.0) + rn(p, 0.2 if s else 0.0))
                else:
                    p.copy_(rn(p, s))
                    cands.append((full, p))
        if policy == "extreme" and cands:
            k = int(torch.randint(len(cands), (1,), generator=g))
            n, p = cands[k]
            sign = 1.0 if int(torch.randint(2, (1,), generator=g)) else -1.0
            if p.dim() >= 1 and p.shape[-1] > 1 and int(torch.randint(2, (1,), generator=g)):
                # non-uniform within the tensor: alternate +-15 along the last dim
                alt = torch.ones(p.shape[-1])
                alt[::2] = -1
                p.copy_(sign * 15.0 * alt.expand(p.shape) + rn(p))
            else:
                p.copy_(sign * 15.0 * torch.ones_like(p) + rn(p))
    return model


def warm(model, cfg, seed):
    """Data-dependent initialisation (ActNorm) done once by a training-mode forward, then eval()."""
    from nflows.transforms.normalization import ActNorm
    if any(isinstance(m, ActNorm) for m in model.modules()):
        m = meta(cfg)
        model.train()
        x = sample_inputs(m, 16, seed + 17, structured=False)
        c = sample_context(m, 16, seed + 18)
        try:
            with torch.no_grad():
                model(x, c) if c is not None else model(x)
        except Exception:
            pass
    model.eval()
    return model


# ----------------------------------------------------------------------------- inputs
def sample_inputs(m, n, seed, structured=True, scale=1.0, dom=None):
    """n in-domain inputs of the item shape; a share of the elements sits on structured points."""
    dom = dom or m["dom_in"]
    g = torch.Generator().manual_seed(int(seed))
    shape = [n] + list(m["shape"])
    kind = dom[0]
    if kind == "R":
        x = torch.randn(shape, generator=g) * (2.0 * scale)
    elif kind == "Rb":
        x = (torch.rand(shape, generator=g) * 2 - 1) * min(dom[1], 4.0 * scale)
        big = torch.rand(shape, generator=g) < 0.1
        x = torch.where(big, (torch.rand(shape, generator=g) * 2 - 1) * dom[1], x)
    elif kind == "pos":
        x = torch.exp(torch.randn(shape, generator=g) * 1.5 * scale)
    else:
        lo, hi = dom[1], dom[2]
        u = torch.rand(shape, generator=g)
        if kind == "open":
            u = u.clamp(1e-6, 1 - 1e-6)
        x = lo + (hi - lo) * u
        if kind == "open":
            w = hi - lo
            x = x.clamp(lo + 1e-9 * w, hi - 1e-9 * w)
    if structured and m["special"]:
        sp = [s for s in m["special"] if _in_dom(s, dom)]
        if sp:
            spt = torch.tensor(sp, dtype=x.dtype)
            idx = torch.randint(len(sp), shape, generator=g)
            if structured == "one":
                # at most one structured element per item (half of the items)
                flat = x.reshape(n, -1)
                pos = torch.randint(flat.shape[1], (n,), generator=g)
                use = torch.rand(n, generator=g) < 0.5
                pick = torch.zeros_like(flat, dtype=torch.bool)
                pick[torch.arange(n)[use], pos[use]] = True
                pick = pick.reshape(shape)
            else:
                pick = torch.rand(shape, generator=g) < 0.25
            x = torch.where(pick, spt[idx], x)
    return x


def sample_context(m, n, seed, scale=1.0):
    if not m["ctx_shape"]:
        return None
    g = torch.Generator().manual_seed(int(seed))
    return torch.randn([n] + list(m["ctx_shape"]), generator=g) * scale


def make(cfg, policy="fresh", seed=0, mode="eval", do_warm=True):
    """Builds, applies the parameter policy, warms data-dependent init (unless do_warm=False), sets the mode."""
    torch.manual_seed(int(seed))
    model = build(cfg)
    apply_policy(model, policy, seed + 1)
    if mode == "eval":
        if do_warm:
            warm(model, cfg, seed)
        model.eval()
    else:
        model.train()
    return model


def nudge_edges(x, me, rel=1e-9):
    """Moves elements sitting on (within a few ulps of) an edge a hair inward."""
    y = x.clone()
    eps = torch.finfo(x.dtype).eps
    for v, d in me.get("edges", []):
        scale = max(abs(v), 1.0)
        y = torch.where((x - v).abs() <= 8 * eps * scale, torch.full_like(x, v + d * rel * scale), y)
    return y


# ---------------------------------------------------------------- the same object, other values
def reseed_cfg(cfg):
    """the same configuration with other constructor-given VALUES (scales / shifts, permutations) where those live in buffers"""
    if isinstance(cfg, dict):
        out = {k: reseed_cfg(v) for k, v in cfg.items()}
        if cfg.get("fam") in ("pointwise_affine", "permutation") and "pseed" in cfg and cfg.get("kind") != "reverse":
            out["pseed"] = cfg["pseed"] + 1
        if str(cfg.get("fam", "")).startswith("coupling_") and isinstance(cfg.get("mask"), list):
            # another mask with the same number of transformed features (what create_random_binary_mask gives under another
            # seed): the index buffers of the layer travel in the state dict, the conditioner's sizes do not change
            m = list(cfg["mask"])
            alt = m[::-1]
            if [v > 0 for v in alt] == [v > 0 for v in m]:
                alt = m[1:] + m[:1]
            out["mask"] = alt
        return out
    if isinstance(cfg, list):
        return [reseed_cfg(v) for v in cfg]
    return cfg


def revalued(cfg, model, me, seed, B):
    """An object of the same configuration that was built and CALLED (both directions) holding other values and then received
    `model`'s values through load_state_dict - "for every parameter value" includes values that arrive after the first call.
    Anything memoised from the first values (log-dets, inverse permutations, folded masks ...) is stale in the returned object."""
    import torch
    other = make(reseed_cfg(cfg), "randn0.3", seed + 5)
    xo = sample_inputs(me, B, seed + 7, structured="one")
    co = sample_context(me, B, seed + 8)
    with torch.no_grad():
        yo = other(xo, co)[0]
        try:
            other.inverse(yo, co)
        except Exception:
            pass
    other.load_state_dict(model.state_dict())
    other.train(model.training)
    return other
